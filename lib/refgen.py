"""refgen.py - independent reference rendering of a module AST (wasmenc.Module) into C, plus the
E2 translation-validation harness that runs the reference and the real w2c2 output side by
side on symbolic inputs.

Reference model (textbook): untyped operand stack of 64-bit slots whose static height the
generator tracks itself, locals array, structured control compiled to labels (block/if label
at the end, loop label at the start; a branch copies the carried values down to the label's
entry height and jumps), code after an unconditional transfer is not rendered, every numeric
instruction is a call into ref_ops.h.  State: per-instance RState with pointers to own or
host-provided (imported) memory / globals / table.
"""
from wasmenc import *  # noqa

TYPE_C = {'i32': 'U32', 'i64': 'U64', 'f32': 'F32', 'f64': 'F64'}

# op -> (param types, result type or None)
SIG = {}
def _sig(names, params, result):
    for n in names:
        SIG[n] = (params, result)

for T in ('i32', 'i64'):
    _sig(['%s.%s' % (T, o) for o in ['add', 'sub', 'mul', 'div_s', 'div_u', 'rem_s', 'rem_u', 'and', 'or', 'xor',
                                     'shl', 'shr_s', 'shr_u', 'rotl', 'rotr']], [T, T], T)
    _sig(['%s.%s' % (T, o) for o in ['clz', 'ctz', 'popcnt']], [T], T)
    _sig(['%s.eqz' % T], [T], 'i32')
    _sig(['%s.%s' % (T, o) for o in ['eq', 'ne', 'lt_s', 'lt_u', 'gt_s', 'gt_u', 'le_s', 'le_u', 'ge_s', 'ge_u']],
         [T, T], 'i32')
for T in ('f32', 'f64'):
    _sig(['%s.%s' % (T, o) for o in ['add', 'sub', 'mul', 'div', 'min', 'max', 'copysign']], [T, T], T)
    _sig(['%s.%s' % (T, o) for o in ['abs', 'neg', 'ceil', 'floor', 'trunc', 'nearest', 'sqrt']], [T], T)
    _sig(['%s.%s' % (T, o) for o in ['eq', 'ne', 'lt', 'gt', 'le', 'ge']], [T, T], 'i32')
_sig(['i32.wrap_i64'], ['i64'], 'i32')
_sig(['i64.extend_i32_s', 'i64.extend_i32_u'], ['i32'], 'i64')
_sig(['i32.extend8_s', 'i32.extend16_s'], ['i32'], 'i32')
_sig(['i64.extend8_s', 'i64.extend16_s', 'i64.extend32_s'], ['i64'], 'i64')
for I in ('i32', 'i64'):
    for F in ('f32', 'f64'):
        _sig(['%s.trunc_%s_s' % (I, F), '%s.trunc_%s_u' % (I, F), '%s.trunc_sat_%s_s' % (I, F),
              '%s.trunc_sat_%s_u' % (I, F)], [F], I)
        _sig(['%s.convert_%s_s' % (F, I), '%s.convert_%s_u' % (F, I)], [I], F)
_sig(['f32.demote_f64'], ['f64'], 'f32')
_sig(['f64.promote_f32'], ['f32'], 'f64')
_sig(['i32.reinterpret_f32'], ['f32'], 'i32')
_sig(['i64.reinterpret_f64'], ['f64'], 'i64')
_sig(['f32.reinterpret_i32'], ['i32'], 'f32')
_sig(['f64.reinterpret_i64'], ['i64'], 'f64')

TRAPPING = set(n for n in SIG if ('div' in n and n[0] == 'i') or 'rem' in n or ('.trunc_f' in n))
# instructions whose NaN results are not bit-determined by the spec (arithmetic NaN propagation)
NAN_NONDET = set(n for n in SIG if n[0] == 'f' and n.split('.')[1] in
                 ('add', 'sub', 'mul', 'div', 'min', 'max', 'sqrt', 'ceil', 'floor', 'trunc', 'nearest',
                  'demote_f64', 'promote_f32'))

CT = {'i32': 'r32', 'i64': 'r64', 'f32': 'r32', 'f64': 'r64'}


def cname(op):
    return 'r_' + op.replace('.', '_')


def mem_info(op):
    """(value type, access bytes, signed-extension helper or None, is_store)"""
    import re
    vt = op[:3]
    is_store = 'store' in op
    m = re.search(r'(load|store)(\d+)?(_s|_u)?$', op)
    width = int(m.group(2)) // 8 if m.group(2) else (4 if vt in ('i32', 'f32') else 8)
    signed = m.group(3) == '_s'
    return vt, width, signed, is_store


def atomic_info(op):
    """kind ('load','store','rmw','cmpxchg'), value type, bytes, rmw op"""
    import re
    vt = op[:3]
    m = re.match(r'(i32|i64)\.atomic\.(load|store|rmw)(\d+)?(?:\.|_)?([a-z]+)?(_u)?$', op)
    kind = m.group(2)
    width = int(m.group(3)) // 8 if m.group(3) else (4 if vt == 'i32' else 8)
    rop = m.group(4)
    if kind == 'rmw' and rop == 'cmpxchg':
        kind = 'cmpxchg'
    return kind, vt, width, rop


class RefGen:
    def __init__(self, m, stack_slots=24):
        self.m = m
        self.out = []
        self.nimpf = len(m.imported('func'))
        self.nimpg = len(m.imported('global'))
        self.has_mem = bool(m.mems or m.imported('memory'))
        self.has_tab = bool(m.tables or m.imported('table'))
        self.lbl = 0
        self.uses_nan_nondet = False
        self.stack_slots = stack_slots

    # ------------------------------------------------------------------ per-function codegen
    def w(self, s):
        self.out.append(s)

    def gen_func(self, fidx):
        m = self.m
        f = m.funcs[fidx - self.nimpf]
        np_ = len(f.params)
        args = ''.join(', uint64_t a%d' % i for i in range(np_))
        self.w('static uint64_t R_f%d(RState* S%s) {' % (fidx, args))
        nl = np_ + len(f.locals)
        self.w('  uint64_t L[%d] = {0}; uint64_t stk[%d]; uint64_t t0, t1, t2; (void)t0; (void)t1; (void)t2; (void)stk;' % (max(1, nl), self.stack_slots))
        for i in range(np_):
            self.w('  L[%d] = a%d;' % (i, i))
        self.ltypes = list(f.params) + list(f.locals)
        self.ret_arity = len(f.results)
        # control stack entries: dict(kind, height, arity(branch), label)
        self.ctrl = [dict(kind='func', height=0, br_arity=self.ret_arity, label='RRET')]
        sp, reach = self.gen_seq(f.body, 0)
        if reach:
            if self.ret_arity:
                self.w('  return stk[%d];' % (sp - 1))
            else:
                self.w('  return 0;')
        self.w('  RRET:;')
        if self.ret_arity:
            self.w('  return stk[0];')
        else:
            self.w('  return 0;')
        self.w('}')

    def gen_seq(self, instrs, sp):
        reach = True
        for ins in instrs:
            if not reach:
                break
            sp, reach = self.gen_instr(ins, sp)
            assert sp <= self.stack_slots, 'ref stack too small'
        return sp, reach

    def branch(self, depth, sp, indent='  '):
        c = self.ctrl[-1 - depth]
        ar = c['br_arity']
        h = c['height']
        if c['kind'] == 'func':
            for j in range(ar):
                self.w('%sstk[%d] = stk[%d];' % (indent, j, sp - ar + j))
        else:
            for j in range(ar):
                if h + j != sp - ar + j:
                    self.w('%sstk[%d] = stk[%d];' % (indent, h + j, sp - ar + j))
        self.w('%sgoto %s;' % (indent, c['label']))

    def gen_instr(self, ins, sp):
        op = ins[0]
        w = self.w
        m = self.m
        if op == 'nop':
            return sp, True
        if op == 'unreachable':
            w('  R_trap = R_TRAP_UNREACHABLE; return 0;')
            return sp, False
        if op in ('block', 'loop'):
            bt = ins[1]
            ar = 1 if bt else 0
            self.lbl += 1
            label = 'RL%d' % self.lbl
            self.ctrl.append(dict(kind=op, height=sp, br_arity=(0 if op == 'loop' else ar), label=label))
            if op == 'loop':
                w('  %s:;' % label)
            s2, reach = self.gen_seq(ins[2], sp)
            self.ctrl.pop()
            if op == 'block':
                w('  %s:;' % label)
            # after a block the height is entry + arity (reachable by fallthrough or by branch)
            return sp + ar, True if op == 'block' else reach
        if op == 'if':
            bt = ins[1]
            ar = 1 if bt else 0
            self.lbl += 1
            label = 'RL%d' % self.lbl
            sp -= 1
            self.ctrl.append(dict(kind='if', height=sp, br_arity=ar, label=label))
            w('  if ((uint32_t)stk[%d] != 0) {' % sp)
            s2, r1 = self.gen_seq(ins[2], sp)
            if r1:
                w('  goto %s;' % label)
            w('  } else {')
            if len(ins) > 3 and ins[3] is not None:
                s3, r2 = self.gen_seq(ins[3], sp)
            w('  }')
            w('  %s:;' % label)
            self.ctrl.pop()
            return sp + ar, True
        if op == 'br':
            self.branch(ins[1], sp)
            return sp, False
        if op == 'br_if':
            sp -= 1
            w('  if ((uint32_t)stk[%d] != 0) {' % sp)
            self.branch(ins[1], sp, '    ')
            w('  }')
            return sp, True
        if op == 'br_table':
            sp -= 1
            w('  switch ((uint32_t)stk[%d]) {' % sp)
            for k, l in enumerate(ins[1]):
                w('  case %d: {' % k)
                self.branch(l, sp, '    ')
                w('  }')
            w('  default: {')
            self.branch(ins[2], sp, '    ')
            w('  } }')
            return sp, False
        if op == 'return':
            self.branch(len(self.ctrl) - 1, sp)
            return sp, False
        if op == 'drop':
            return sp - 1, True
        if op == 'select':
            w('  if ((uint32_t)stk[%d] == 0) stk[%d] = stk[%d];' % (sp - 1, sp - 3, sp - 2))
            return sp - 2, True
        if op == 'local.get':
            w('  stk[%d] = L[%d];' % (sp, ins[1]))
            return sp + 1, True
        if op == 'local.set':
            w('  L[%d] = stk[%d];' % (ins[1], sp - 1))
            return sp - 1, True
        if op == 'local.tee':
            w('  L[%d] = stk[%d];' % (ins[1], sp - 1))
            return sp, True
        if op == 'global.get':
            w('  stk[%d] = *S->g[%d];' % (sp, ins[1]))
            return sp + 1, True
        if op == 'global.set':
            w('  *S->g[%d] = stk[%d];' % (ins[1], sp - 1))
            return sp - 1, True
        if op in ('i32.const', 'f32.const'):
            w('  stk[%d] = (uint64_t)0x%xu;' % (sp, ins[1] & 0xFFFFFFFF))
            return sp + 1, True
        if op in ('i64.const', 'f64.const'):
            w('  stk[%d] = 0x%xull;' % (sp, ins[1] & 0xFFFFFFFFFFFFFFFF))
            return sp + 1, True
        if op == 'call':
            fi = ins[1]
            (ps, rs) = m.func_sig(fi)
            n = len(ps)
            args = ''.join(', stk[%d]' % (sp - n + j) for j in range(n))
            if fi < self.nimpf:
                call = 'R_host(S, %d, %d%s)' % (fi, n, ''.join(', stk[%d]' % (sp - n + j) for j in range(n)) + ', 0' * (4 - n))
            else:
                call = 'R_f%d(S%s)' % (fi, args)
            w('  t0 = %s; if (R_trap || R_stop) return 0;' % call)
            sp -= n
            if rs:
                w('  stk[%d] = %st0;' % (sp, '(uint32_t)' if rs[0] in ('i32', 'f32') else ''))
                sp += 1
            return sp, True
        if op == 'call_indirect':
            (ps, rs) = (tuple(ins[1][0]), tuple(ins[1][1]))
            n = len(ps)
            sp -= 1
            w('  t1 = (uint32_t)stk[%d];' % sp)
            w('  if (t1 >= S->tab->size) { R_stop = 1; return 0; }')
            w('  switch (S->tab->f[t1]) {')
            total = self.nimpf + len(m.funcs)
            for fi in range(total):
                if m.func_sig(fi) == (ps, rs):
                    if fi < self.nimpf:
                        call = 'R_host(S, %d, %d%s)' % (fi, n, ''.join(', stk[%d]' % (sp - n + j) for j in range(n)) + ', 0' * (4 - n))
                    else:
                        call = 'R_f%d(S%s)' % (fi, ''.join(', stk[%d]' % (sp - n + j) for j in range(n)))
                    w('  case %d: t0 = %s; break;' % (fi, call))
            w('  default: R_stop = 1; return 0; }')
            w('  if (R_trap || R_stop) return 0;')
            sp -= n
            if rs:
                w('  stk[%d] = %st0;' % (sp, '(uint32_t)' if rs[0] in ('i32', 'f32') else ''))
                sp += 1
            return sp, True
        if op in LOADS:
            vt, width, signed, _ = mem_info(op)
            w('  t0 = R_load(S, (uint64_t)(uint32_t)stk[%d] + %dull, %d); if (R_stop) return 0;' % (sp - 1, ins[2], width))
            if signed:
                bits = 32 if vt == 'i32' else 64
                w('  t0 = r_sext(t0, %d, %d);' % (width * 8, bits))
            w('  stk[%d] = t0;' % (sp - 1))
            return sp, True
        if op in STORES:
            vt, width, signed, _ = mem_info(op)
            w('  R_store(S, (uint64_t)(uint32_t)stk[%d] + %dull, %d, stk[%d]); if (R_stop) return 0;' % (sp - 2, ins[2], width, sp - 1))
            return sp - 2, True
        if op == 'memory.size':
            w('  stk[%d] = S->mem->pages;' % sp)
            return sp + 1, True
        if op == 'memory.grow':
            w('  stk[%d] = R_grow(S, (uint32_t)stk[%d]);' % (sp - 1, sp - 1))
            return sp, True
        if op == 'memory.fill':
            w('  R_fill(S, (uint32_t)stk[%d], (uint32_t)stk[%d], (uint32_t)stk[%d]); if (R_stop || R_trap) return 0;' % (sp - 3, sp - 2, sp - 1))
            return sp - 3, True
        if op == 'memory.copy':
            w('  R_copy(S, (uint32_t)stk[%d], (uint32_t)stk[%d], (uint32_t)stk[%d]); if (R_stop || R_trap) return 0;' % (sp - 3, sp - 2, sp - 1))
            return sp - 3, True
        if op == 'memory.init':
            w('  R_init(S, R_data%d, %d, (uint32_t)stk[%d], (uint32_t)stk[%d], (uint32_t)stk[%d]); if (R_stop || R_trap) return 0;' %
              (ins[1], len(m.datas[ins[1]].data), sp - 3, sp - 2, sp - 1))
            return sp - 3, True
        if op == 'data.drop':
            return sp, True
        if op == 'atomic.fence':
            return sp, True
        if op in ATOMIC_LOADS:
            kind, vt, width, _ = atomic_info(op)
            w('  t0 = R_load(S, (uint64_t)(uint32_t)stk[%d] + %dull, %d); if (R_stop) return 0; stk[%d] = t0;' % (sp - 1, ins[2], width, sp - 1))
            return sp, True
        if op in ATOMIC_STORES:
            kind, vt, width, _ = atomic_info(op)
            w('  R_store(S, (uint64_t)(uint32_t)stk[%d] + %dull, %d, stk[%d]); if (R_stop) return 0;' % (sp - 2, ins[2], width, sp - 1))
            return sp - 2, True
        if op in ATOMIC_RMW:
            kind, vt, width, rop = atomic_info(op)
            ea = '(uint64_t)(uint32_t)stk[%d] + %dull'
            if kind == 'cmpxchg':
                w(('  t2 = ' + ea + '; t0 = R_load(S, t2, %d); if (R_stop) return 0;') % (sp - 3, ins[2], width))
                w('  if (t0 == r_trunc(stk[%d], %d)) R_store(S, t2, %d, stk[%d]);' % (sp - 2, width * 8, width, sp - 1))
                w('  stk[%d] = t0;' % (sp - 3))
                return sp - 2, True
            w(('  t2 = ' + ea + '; t0 = R_load(S, t2, %d); if (R_stop) return 0;') % (sp - 2, ins[2], width))
            expr = {'add': 't0 + stk[%d]', 'sub': 't0 - stk[%d]', 'and': 't0 & stk[%d]', 'or': 't0 | stk[%d]',
                    'xor': 't0 ^ stk[%d]', 'xchg': 'stk[%d]'}[rop] % (sp - 1)
            w('  R_store(S, t2, %d, %s); stk[%d] = t0;' % (width, expr, sp - 2))
            return sp - 1, True
        if op in ('memory.atomic.notify', 'memory.atomic.wait32', 'memory.atomic.wait64'):
            n = 2 if op.endswith('notify') else 3
            kindid = {'memory.atomic.notify': 0, 'memory.atomic.wait32': 1, 'memory.atomic.wait64': 2}[op]
            args = ['(uint64_t)(uint32_t)stk[%d] + %dull' % (sp - n, ins[2])] + ['stk[%d]' % (sp - n + j) for j in range(1, n)]
            while len(args) < 3:
                args.append('0')
            w('  t0 = R_futex(S, %d, %s); if (R_stop) return 0; stk[%d] = t0;' % (kindid, ', '.join(args), sp - n))
            return sp - n + 1, True
        if op in SIG:
            ps, r = SIG[op]
            n = len(ps)
            if op in NAN_NONDET:
                self.uses_nan_nondet = True
            args = ', '.join('(%s)stk[%d]' % (CT[ps[j]], sp - n + j) for j in range(n))
            w('  stk[%d] = (uint64_t)%s(%s);' % (sp - n, cname(op), args))
            if op in TRAPPING:
                w('  if (R_trap) return 0;')
            return sp - n + 1, True
        raise Exception('refgen: unsupported op %r' % (op,))


def const_expr_c(ins):
    op = ins[0]
    if op in ('i32.const', 'f32.const'):
        return '(uint64_t)0x%xu' % (ins[1] & 0xFFFFFFFF)
    if op in ('i64.const', 'f64.const'):
        return '0x%xull' % (ins[1] & 0xFFFFFFFFFFFFFFFF)
    if op == 'global.get':
        return '(*S->g[%d])' % ins[1]
    raise Exception('bad const expr')


def esc(name):
    """w2c2's documented identifier escaping (README: non-alphanumerics become X<hex>, '_' doubled rule)."""
    out = ''
    b = name.encode('utf-8') if isinstance(name, str) else name
    for k, c in enumerate(b):
        ch = chr(c)
        if ch == '_':
            out += '__' if (k > 0 and b[k - 1] == ord('_')) else '_'
        elif ch != 'X' and ch.isalnum() and c < 128:
            out += ch
        else:
            out += 'X%02X' % c
    return out


class Harness:
    """Builds the complete E2 harness source for module `m` translated by w2c2 as module name `mod`.

    script: list of steps; each step is a dict:
       {'call': export_name, 'inst': 0|1}   -- call an exported function with fresh symbolic args
    options: n_inst (1|2), mem_pages_max (reference array pages), sym_window (bytes of symbolic
       initial memory poked into both memories after instantiation, 0 = none), host_rets symbolic.
    """
    def __init__(self, m, mod='m', script=None, n_inst=1, ref_pages=None, sym_window=0, max_host_calls=6,
                 prefix=False, check_instantiation=True, float_exact=None, tab_slots=None, futex_stub=False,
                 child_of=None, arg_assume=None, page=65536, assume_no_trap=False):
        self.assume_no_trap = assume_no_trap
        self.page = page
        self.m, self.mod = m, mod
        self.script = script or []
        self.n_inst = n_inst
        self.sym_window = sym_window
        self.max_host_calls = max_host_calls
        self.prefix = prefix
        self.futex_stub = futex_stub
        self.child_of = child_of
        self.arg_assume = arg_assume or {}
        mem = (m.imported('memory')[0].desc if m.imported('memory') else (m.mems[0] if m.mems else None))
        self.mem = mem
        self.mem_imported = bool(m.imported('memory'))
        self.mem_shared = bool(mem and len(mem) > 2 and mem[2])
        if mem:
            declared_max = mem[1]
            self.ref_pages = ref_pages or min(declared_max if declared_max is not None else mem[0] + 1, mem[0] + 2)
            self.ref_pages = max(self.ref_pages, 1)
        else:
            self.ref_pages = 0
        tab = (m.imported('table')[0].desc if m.imported('table') else (m.tables[0] if m.tables else None))
        self.tab = tab
        self.tab_imported = bool(m.imported('table'))
        self.tab_slots = tab_slots or (tab[0] if tab else 0)
        self.rg = RefGen(m)
        self.float_exact = float_exact

    def real_fname(self, fi):
        m = self.m
        imf = m.imported('func')
        pre = (self.mod + '_') if self.prefix else ''
        if fi < len(imf):
            return pre + esc(imf[fi].module) + '__' + esc(imf[fi].name)
        return pre + 'f%d' % fi

    def gen(self):
        m, mod, rg = self.m, self.mod, self.rg
        o = []
        w = o.append
        nimpg = len(m.imported('global'))
        ng = nimpg + len(m.globals)
        nimpf = len(m.imported('func'))
        nf = nimpf + len(m.funcs)
        w('/* generated E2 harness: reference rendering vs real w2c2 output */')
        w('#include "vh.h"')
        w('#ifndef REPLAY')
        w('/* CBMC models sqrt nondeterministically; both sides use one uninterpreted function instead */')
        w('float __CPROVER_uninterpreted_sqrtf(float); double __CPROVER_uninterpreted_sqrt(double);')
        w('float sqrtf(float x) { return __CPROVER_uninterpreted_sqrtf(x); }')
        w('double sqrt(double x) { return __CPROVER_uninterpreted_sqrt(x); }')
        w('#endif')
        w('#include "ref_ops.h"')
        w('#define R_BULK_MAX 6')
        w('#include "%s.h"' % mod)
        w('#define RMEM_BYTES %d' % max(1, self.ref_pages * self.page))
        w('#define RPAGE %dull' % self.page)
        w('#define RTAB_SLOTS %d' % max(1, self.tab_slots))
        w('#define NG %d' % max(1, ng))
        w('#define MAXC %d' % self.max_host_calls)
        w('typedef struct { uint8_t* data; uint32_t pages; uint32_t maxpages; int has_max; } RMem;')
        w('static uint8_t R_memdata0[RMEM_BYTES]; static uint8_t R_memdata1[RMEM_BYTES]; static uint8_t R_memdatah[RMEM_BYTES];')
        w('typedef struct { int32_t f[RTAB_SLOTS]; uint32_t size; } RTab;')
        w('typedef struct RState { uint64_t own_g[NG]; uint64_t* g[NG]; RMem* mem; RTab* tab; int id; } RState;')
        w('static RMem R_ownmem[2]; static RTab R_owntab[2]; static RMem R_hostmem; static RTab R_hosttab; static uint64_t R_hostg[NG];')
        w('static int R_stop; /* reference reached something outside the property (OOB access, invalid indirect call, trace overflow) */')
        w('typedef struct { int id; int inst; int n; uint64_t a[4]; uint64_t ret; } HCall;')
        w('static int R_ncalls; static int I_ncalls;')
        w('static uint64_t r_trunc(uint64_t v, int bits) { return bits >= 64 ? v : (v & ((((uint64_t)1) << bits) - 1)); }')
        w('static uint64_t r_sext(uint64_t v, int from, int to) { uint64_t s = ((uint64_t)1) << (from - 1); v = r_trunc(v, from); if (v & s) v |= ~((s << 1) - 1); return r_trunc(v, to); }')
        # memory helpers
        w('static uint64_t R_load(RState* S, uint64_t ea, int n) { uint64_t v = 0; int k; if (ea + (uint64_t)n > (uint64_t)S->mem->pages * RPAGE) { R_stop = 1; return 0; }')
        w('  for (k = 0; k < n; k++) v |= ((uint64_t)S->mem->data[ea + k]) << (8 * k); return v; }')
        w('static void R_store(RState* S, uint64_t ea, int n, uint64_t v) { int k; if (ea + (uint64_t)n > (uint64_t)S->mem->pages * RPAGE) { R_stop = 1; return; }')
        w('  for (k = 0; k < n; k++) S->mem->data[ea + k] = (uint8_t)(v >> (8 * k)); }')
        w('static uint64_t R_grow(RState* S, uint32_t delta) { uint64_t old = S->mem->pages; uint64_t lim = S->mem->has_max ? S->mem->maxpages : 65536ull /* spec limit on the page COUNT */;')
        w('  if (old + (uint64_t)delta > lim) return 0xFFFFFFFFull; if (old + delta > RMEM_BYTES / RPAGE) { R_stop = 1; return 0; }')
        w('  S->mem->pages = (uint32_t)(old + delta); return old; }')
        w('static void R_fill(RState* S, uint32_t d, uint32_t val, uint32_t n) { uint32_t k; if ((uint64_t)d + n > (uint64_t)S->mem->pages * RPAGE) { R_stop = 1; return; }')
        w('  if (n > R_BULK_MAX) { R_stop = 1; return; } for (k = 0; k < R_BULK_MAX; k++) if (k < n) S->mem->data[d + k] = (uint8_t)val; }')
        w('static void R_copy(RState* S, uint32_t d, uint32_t s, uint32_t n) { uint32_t k; uint8_t tmp[R_BULK_MAX]; if ((uint64_t)d + n > (uint64_t)S->mem->pages * RPAGE || (uint64_t)s + n > (uint64_t)S->mem->pages * RPAGE) { R_stop = 1; return; }')
        w('  if (n > R_BULK_MAX) { R_stop = 1; return; } for (k = 0; k < R_BULK_MAX; k++) if (k < n) tmp[k] = S->mem->data[s + k]; for (k = 0; k < R_BULK_MAX; k++) if (k < n) S->mem->data[d + k] = tmp[k]; }')
        w('static void R_init(RState* S, const uint8_t* seg, uint32_t seglen, uint32_t d, uint32_t s, uint32_t n) { uint32_t k; if ((uint64_t)d + n > (uint64_t)S->mem->pages * RPAGE || (uint64_t)s + n > seglen) { R_stop = 1; return; }')
        w('  for (k = 0; k < seglen; k++) if (k < n) S->mem->data[d + k] = seg[s + k]; }')
        # host calls
        # host-call trace without a read/write array: the K-th call (K symbolic, chosen once) is recorded in
        # scalars and compared; return values come from a read-only table of symbolic values indexed by the
        # running call number, so reference and real side see the same host answers.
        w('static uint64_t H_ret[MAXC]; static uint32_t obs_k; static int obs_set; static HCall obs;')
        # the same (module, name) may be imported more than once: every such import denotes the same host function, so
        # the observed identity is the index of the FIRST import with that module and name
        imf_all = m.imported('func')
        canon = [min(j for j in range(len(imf_all)) if (imf_all[j].module, imf_all[j].name) == (im.module, im.name)) for im in imf_all]
        self.host_canon = canon
        w('static const int host_canon[%d] = {%s};' % (max(1, len(canon)), ', '.join(str(c) for c in canon) or '0'))
        w('static uint64_t R_host(RState* S, int id, int n, uint64_t a0, uint64_t a1, uint64_t a2, uint64_t a3) { uint64_t r; id = host_canon[id];')
        w('  if (R_ncalls >= MAXC) { R_stop = 1; return 0; }')
        w('  if ((uint32_t)R_ncalls == obs_k) { obs_set = 1; obs.id = id; obs.inst = S->id; obs.n = n; obs.a[0] = a0; obs.a[1] = a1; obs.a[2] = a2; obs.a[3] = a3; }')
        w('  r = H_ret[R_ncalls]; R_ncalls++; return r; }')
        w('typedef struct { int kind; uint64_t addr, a1, a2; uint64_t ret; } FCall;')
        w('static FCall R_fx[MAXC]; static int R_nfx; static int I_nfx;')
        w('static uint64_t R_futex(RState* S, int kind, uint64_t ea, uint64_t a1, uint64_t a2) { FCall* c; (void)S; if (R_nfx >= MAXC || ea > 0xFFFFFFFFull) { R_stop = 1; return 0; }')
        w('  c = &R_fx[R_nfx++]; c->kind = kind; c->addr = ea; c->a1 = a1; c->a2 = a2; c->ret = nd32() & 3u; return c->ret; }')
        # data segments
        for k, d in enumerate(m.datas):
            w('static const uint8_t R_data%d[%d] = {%s};' % (k, max(1, len(d.data)), ','.join(str(b) for b in d.data) or '0'))
        # reference functions (forward declarations first: recursion / forward calls)
        for fi in range(nimpf, nf):
            f = m.funcs[fi - nimpf]
            w('static uint64_t R_f%d(RState* S%s);' % (fi, ''.join(', uint64_t' for _ in f.params)))
        for fi in range(nimpf, nf):
            rg.out = []
            rg.gen_func(fi)
            o.extend(rg.out)
        # reference instantiation
        w('static void R_instantiate(RState* S, int id) { int k; (void)k; S->id = id;')
        for gi in range(nimpg):
            w('  S->g[%d] = &R_hostg[%d];' % (gi, gi))
        for gi in range(nimpg, ng):
            w('  S->g[%d] = &S->own_g[%d];' % (gi, gi))
        if self.mem:
            if self.mem_imported:
                w('  S->mem = &R_hostmem;')
            else:
                mn, mx = self.mem[0], self.mem[1]
                if self.child_of is not None and self.mem_shared:
                    w('  if (id == 1) S->mem = &R_ownmem[0]; else {')
                w('  S->mem = &R_ownmem[id]; S->mem->data = id ? R_memdata1 : R_memdata0;')
                w('  S->mem->pages = %d; S->mem->has_max = %d; S->mem->maxpages = %d;' % (mn, 1 if mx is not None else 0, mx if mx is not None else 0))
                if self.child_of is not None and self.mem_shared:
                    w('  }')
        # globals before data/elem offsets? spec: globals are initialised first (offsets may read imported globals only)
        for k, g in enumerate(m.globals):
            w('  *S->g[%d] = %s;' % (nimpg + k, const_expr_c(g.init)))
        if self.tab:
            if self.tab_imported:
                w('  S->tab = &R_hosttab;')
            else:
                w('  S->tab = &R_owntab[id]; S->tab->size = %d; for (k = 0; k < RTAB_SLOTS; k++) S->tab->f[k] = -1;' % self.tab[0])
        for k, e in enumerate(m.elems):
            w('  { uint32_t off = (uint32_t)%s; if ((uint64_t)off + %d > S->tab->size || (uint64_t)off + %d > RTAB_SLOTS) { R_stop = 1; return; }' % (const_expr_c(e.offset), len(e.funcs), len(e.funcs)))
            for j, fi in enumerate(e.funcs):
                w('    S->tab->f[off + %d] = %d;' % (j, fi))
            w('  }')
        for k, d in enumerate(m.datas):
            if d.passive:
                continue
            w('  { uint32_t off = (uint32_t)%s; if ((uint64_t)off + %d > (uint64_t)S->mem->pages * RPAGE) { R_stop = 1; return; }' % (const_expr_c(d.offset), len(d.data)))
            w('    for (k = 0; k < %d; k++) S->mem->data[off + k] = R_data%d[k]; }' % (len(d.data), k))
        if m.start is not None:
            w('  R_f%d(S);' % m.start if m.start >= nimpf else '  R_host(S, %d, 0, 0, 0, 0, 0);' % m.start)
        w('}')
        # ------------------------------------------------------------ real side glue
        w('static RState RS[2]; static %sInstance* RI[2]; static %sInstance* cur_inst; static int cur_id;' % (mod, mod))
        w('static int phase_real; static int expecting_trap; static int varied_args = 1;')
        w('static wasmMemory H_mem; static wasmTable H_tab; static wasmFunc H_tabdata[RTAB_SLOTS];')
        gtypes = [m.global_type(i)[0] for i in range(ng)]
        for gi in range(nimpg):
            w('static %s H_g%d;' % (TYPE_C[gtypes[gi]], gi))
        # value <-> bits helpers
        w('static uint64_t bits_of_F32(F32 f) { U32 b; memcpy(&b, &f, 4); return b; }')
        w('static uint64_t bits_of_F64(F64 f) { U64 b; memcpy(&b, &f, 8); return b; }')
        w('static F32 F32_of_bits(uint64_t b) { U32 x = (U32)b; F32 f; memcpy(&f, &x, 4); return f; }')
        w('static F64 F64_of_bits(uint64_t b) { U64 x = b; F64 f; memcpy(&f, &x, 8); return f; }')
        w('#define bits_of_U32(x) ((uint64_t)(U32)(x))')
        w('#define bits_of_U64(x) ((uint64_t)(U64)(x))')
        w('#define U32_of_bits(b) ((U32)(b))')
        w('#define U64_of_bits(b) ((U64)(b))')
        loose = self.rg.uses_nan_nondet if self.float_exact is None else (not self.float_exact)
        w('static int same_f32(uint64_t a, uint64_t b) { return a == b%s; }' % (' || (r_f32_isnan((r32)a) && r_f32_isnan((r32)b))' if loose else ''))
        w('static int same_f64(uint64_t a, uint64_t b) { return a == b%s; }' % (' || (r_f64_isnan(a) && r_f64_isnan(b))' if loose else ''))
        w('#define same_i32(a, b) ((a) == (b))')
        w('#define same_i64(a, b) ((a) == (b))')
        # function identity
        w('static wasmFunc real_fn(int id) { switch (id) {')
        for fi in range(nf):
            w('  case %d: return (wasmFunc)%s;' % (fi, self.real_fname(fi)))
        w('  default: return (wasmFunc)0; } }')
        # state comparison
        w('static uint32_t cmp_idx;')
        w('static void compare_state(int id, const char* unused) { %sInstance* I = RI[id]; RState* S = &RS[id]; int k; (void)k; (void)I; (void)S; (void)unused;' % mod)
        for gi in range(ng):
            t = gtypes[gi]
            acc = ('(*I->%s)' % self.gname(gi)) if gi < nimpg else ('I->g%d' % gi)
            w('  V_ASSERT(same_%s(bits_of_%s(%s), *S->g[%d]), "global %d equals reference");' % (t, TYPE_C[t], acc, gi, gi))
        if self.mem:
            macc = 'I->%s' % self.memname()
            w('  V_ASSERT(%s->pages == S->mem->pages, "memory.size (pages) equals reference");' % macc)
            w('  V_ASSERT(%s->shared || (uint64_t)%s->size == (uint64_t)S->mem->pages * RPAGE, "memory byte size is pages*65536");' % (macc, macc))
            w('  if ((uint64_t)cmp_idx < (uint64_t)S->mem->pages * RPAGE) V_ASSERT(%s->data[cmp_idx] == S->mem->data[cmp_idx], "memory byte at arbitrary index equals reference");' % macc)
        if self.tab:
            tacc = ('(*I->%s)' % self.tabname()) if self.tab_imported else 'I->t0'
            w('  for (k = 0; k < RTAB_SLOTS; k++) if ((uint32_t)k < S->tab->size && S->tab->f[k] >= 0) V_ASSERT(%s.data[k] == real_fn(S->tab->f[k]), "table slot holds the designated function");' % tacc)
        w('}')
        # trap handler
        w('static const int trapmap[5] = { R_TRAP_UNREACHABLE, R_TRAP_DIV0, R_TRAP_OVERFLOW, R_TRAP_INVALID, -1 };')
        w('void trap(Trap t) {')
        w('  V_ASSERT(phase_real && expecting_trap, "trap handler entered only when the specification traps");')
        w('  V_ASSERT((int)t >= 0 && (int)t < 5 && trapmap[(int)t] == R_trap, "trap code equals the specification\'s trap kind");')
        w('  V_ASSERT(I_ncalls == R_ncalls, "host calls before trap equal reference");')
        w('  V_ASSERT(I_nfx == R_nfx, "wait/notify calls before trap equal reference");')
        w('  compare_state(cur_id, "trap");')
        w('  V_WITNESS("trap path reachable");')
        w('  V_STOP();')
        w('#ifndef REPLAY\n  while (1) { }\n#endif')
        w('}')
        # host imports (real side)
        for fi, im in enumerate(m.imported('func')):
            if self.host_canon[fi] != fi:
                continue
            ps, rs = im.desc
            ret = TYPE_C[rs[0]] if rs else 'void'
            params = ''.join(', %s p%d' % (TYPE_C[t], j) for j, t in enumerate(ps))
            w('%s %s(void* inst%s) { uint64_t r;' % (ret, self.real_fname(fi), params))
            w('  V_ASSERT(I_ncalls < R_ncalls, "host import called no more often than in the reference");')
            w('  if ((uint32_t)I_ncalls == obs_k) {')
            w('    V_ASSERT(obs_set && obs.id == %d, "host import called is the designated one");' % fi)
            w('    V_ASSERT(inst == (void*)RI[obs.inst], "host import receives the calling instance");')
            for j, t in enumerate(ps):
                w('    V_ASSERT(same_%s(bits_of_%s(p%d), obs.a[%d]), "host import argument %d equals reference");' % (t, TYPE_C[t], j, j, j))
            w('  }')
            w('  r = H_ret[I_ncalls < MAXC ? I_ncalls : 0]; I_ncalls++;')
            if rs:
                w('  return %s_of_bits(r);' % TYPE_C[rs[0]])
            w('}')
        if self.futex_stub:
            w('U32 wasmMemoryAtomicWait(wasmMemory* mem, U32 address, U64 expect, I64 timeout, bool wait64) { FCall* c;')
            w('  V_ASSERT(I_nfx < R_nfx, "wait called no more often than in the reference"); c = &R_fx[I_nfx++];')
            w('  V_ASSERT(c->kind == (wait64 ? 2 : 1), "wait flavour (32/64) equals reference");')
            w('  V_ASSERT(mem == cur_inst->%s, "wait on the instance memory");' % self.memname())
            w('  V_ASSERT((uint64_t)address == c->addr, "wait effective address = operand + static offset");')
            w('  V_ASSERT((uint64_t)expect == (wait64 ? c->a1 : (c->a1 & 0xFFFFFFFFull)), "wait expected value equals reference");')
            w('  V_ASSERT((uint64_t)timeout == c->a2, "wait timeout equals reference"); return (U32)c->ret; }')
            w('U32 wasmMemoryAtomicNotify(wasmMemory* mem, U32 address, U32 count) { FCall* c;')
            w('  V_ASSERT(I_nfx < R_nfx, "notify called no more often than in the reference"); c = &R_fx[I_nfx++];')
            w('  V_ASSERT(c->kind == 0, "notify equals reference kind");')
            w('  V_ASSERT(mem == cur_inst->%s, "notify on the instance memory");' % self.memname())
            w('  V_ASSERT((uint64_t)address == c->addr, "notify effective address = operand + static offset");')
            w('  V_ASSERT((uint64_t)count == (c->a1 & 0xFFFFFFFFull), "notify count equals reference"); return (U32)c->ret; }')
        # resolver
        w('static int streq(const char* a, const char* b) { int k; for (k = 0; k < 24; k++) { if (a[k] != b[k]) return 0; if (a[k] == 0) return 1; } return 0; }')
        w('static int resolve_calls;')
        w('static void* resolve(const char* module, const char* name) { resolve_calls++;')
        for im in m.imports:
            tgt = None
            if im.kind == 'memory':
                tgt = '&H_mem'
            elif im.kind == 'table':
                tgt = '&H_tab'
            elif im.kind == 'global':
                tgt = '&H_g%d' % m.imported('global').index(im)
            if tgt:
                w('  if (streq(module, "%s") && streq(name, "%s")) return (void*)%s;' % (cstr(im.module), cstr(im.name), tgt))
        w('  return (void*)0; }')
        return o

    def gname(self, gi):
        im = self.m.imported('global')[gi]
        return esc(im.module) + '__' + esc(im.name)

    def memname(self):
        if self.mem_imported:
            im = self.m.imported('memory')[0]
            return esc(im.module) + '__' + esc(im.name)
        return 'm0'

    def tabname(self):
        im = self.m.imported('table')[0]
        return esc(im.module) + '__' + esc(im.name)

    def export_sym(self, name):
        return self.mod + '_' + esc(name)

    def gen_main(self):
        """harness(): host state, instantiate reference + real, run the script."""
        m, mod = self.m, self.mod
        o = self.gen()
        w = o.append
        nimpg = len(m.imported('global'))
        nimpf = len(m.imported('func'))
        w('static %sInstance INST[2];' % mod)
        w('void harness(void) { int k; (void)k;')
        w('  cmp_idx = nd32(); obs_k = nd32(); V_ASSUME(obs_k < MAXC);')
        for k in range(self.max_host_calls):
            w('  H_ret[%d] = nd64();' % k)
        # host-provided state: same symbolic values on both sides
        for gi in range(nimpg):
            t = m.global_type(gi)[0]
            nd = 'nd32()' if t in ('i32', 'f32') else 'nd64()'
            w('  { uint64_t v = %s; R_hostg[%d] = v; H_g%d = %s_of_bits(v); }' % (nd, gi, gi, TYPE_C[t]))
        if self.mem_imported:
            mn, mx = self.mem[0], self.mem[1]
            w('  H_mem.data = (U8*)calloc(%d, 1); V_ASSUME(H_mem.data != 0); H_mem.pages = %d; H_mem.size = %d; H_mem.maxPages = %d; H_mem.shared = %s;' %
              (mn * self.page, mn, mn * self.page, mx if mx is not None else 65535, 'true' if self.mem_shared else 'false'))
            w('  R_hostmem.data = R_memdatah; R_hostmem.pages = %d; R_hostmem.has_max = %d; R_hostmem.maxpages = %d;' % (mn, 1 if mx is not None else 0, mx or 0))
            w('  { uint32_t hb = nd32(); V_ASSUME(hb <= %d - 8); for (k = 0; k < 8; k++) { uint8_t v = nd8(); H_mem.data[hb + k] = v; R_hostmem.data[hb + k] = v; }' % (mn * self.page))
            w('    for (k = 0; k < 0; k++) { } }')
            w('  /* bytes of the host memory outside the 8-byte symbolic window: equal by construction */')
            w('  { uint32_t j = cmp_idx; if (j < %d) { R_hostmem.data[j] = H_mem.data[j]; } }' % (mn * self.page))
        if self.tab_imported:
            w('  H_tab.data = H_tabdata; H_tab.size = %d; H_tab.maxSize = %d; R_hosttab.size = %d;' % (self.tab[0], self.tab[1] or self.tab[0], self.tab[0]))
            w('  for (k = 0; k < RTAB_SLOTS; k++) { R_hosttab.f[k] = -1; H_tabdata[k] = (wasmFunc)0; }')
        # instantiate
        for inst in range(self.n_inst):
            w('  RI[%d] = &INST[%d];' % (inst, inst))
        for inst in range(self.n_inst):
            if self.child_of is not None and inst == 1:
                continue
            w('  phase_real = 0; R_instantiate(&RS[%d], %d);' % (inst, inst))
            w('  V_ASSUME(!R_stop);')
            w('  V_ASSUME(!R_trap);')  # start function trapping: out of family
            w('  phase_real = 1;')
            w('  cur_inst = RI[%d]; cur_id = %d; %sInstantiate(&INST[%d], resolve);' % (inst, inst, mod, inst))
            w('  V_ASSERT(I_ncalls == R_ncalls, "host calls during instantiation equal reference");')
            for k2 in range(inst + 1):
                w('  compare_state(%d, "after instantiate");' % k2)
        if self.child_of is not None:
            w('  phase_real = 0; R_instantiate(&RS[1], 1); V_ASSUME(!R_stop && !R_trap); phase_real = 1;')
            w('  cur_id = 1; RI[1] = (%sInstance*)INST[0].common.newChild((struct wasmModuleInstance*)&INST[0]); cur_inst = RI[1];' % mod)
            w('  V_ASSUME(RI[1] != 0);' if False else '  V_ASSERT(RI[1] != 0, "newChild returns an instance");')
            w('  V_ASSERT(I_ncalls == R_ncalls, "host calls during child instantiation equal reference");')
            if self.mem and self.mem_shared:
                w('  V_ASSERT(RI[1]->%s == RI[0]->%s, "child instance shares the parent\'s shared memory");' % (self.memname(), self.memname()))
            w('  compare_state(1, "after newChild"); compare_state(0, "parent after newChild");')
        w('  phase_real = 0;')
        if self.sym_window and self.mem:
            macc = 'INST[0].%s' % self.memname()
            w('  { uint32_t wb = nd32(); V_ASSUME((uint64_t)wb + %d <= (uint64_t)RS[0].mem->pages * RPAGE);' % self.sym_window)
            w('    for (k = 0; k < %d; k++) { uint8_t v = nd8(); %s->data[wb + k] = v; RS[0].mem->data[wb + k] = v; } }' % (self.sym_window, macc))
        # script
        for si, st in enumerate(self.script):
            inst = st.get('inst', 0)
            name = st['call']
            fi = [ix for (n, kd, ix) in m.exports if n == name and kd == 'func'][0]
            ps, rs = m.func_sig(fi)
            w('  { /* step %d: %s on instance %d */' % (si, name, inst))
            args_r, args_i = [], []
            for j, t in enumerate(ps):
                nd = 'nd32()' if t in ('i32', 'f32') else 'nd64()'
                fixed = st.get('args', {}).get(j)
                if fixed is not None:
                    nd = '0x%xull' % fixed
                w('    uint64_t a%d = %s;' % (j, nd))
                cond = st.get('assume', {}).get(j)
                if cond:
                    w('    V_ASSUME(%s);' % cond.replace('$', 'a%d' % j))
                elif fixed is None:
                    # 'varied' arguments: values a native re-run can tell apart (moderate, inexact floats; non-trivial integers)
                    w('    varied_args &= %s;' % {
                        'f32': '(((a%d >> 23) & 0xFF) >= 0x70 && ((a%d >> 23) & 0xFF) <= 0x8F && (a%d & 0xFFF) != 0)' % (j, j, j),
                        'f64': '(((a%d >> 52) & 0x7FF) >= 0x3F0 && ((a%d >> 52) & 0x7FF) <= 0x40F && (a%d & 0x1FFFFFFF) != 0)' % (j, j, j),
                        'i32': '((a%d & 0xFFFFFFFFu) > 2)' % j, 'i64': '(a%d > 0x100000000ull)' % j}[t])
                args_r.append('a%d' % j)
                args_i.append('%s_of_bits(a%d)' % (TYPE_C[t], j))
            w('    uint64_t rr; R_nfx = 0; I_nfx = 0;')
            if fi < nimpf:
                w('    rr = R_host(&RS[%d], %d, %d%s);' % (inst, fi, len(ps), ''.join(', ' + a for a in args_r) + ', 0' * (4 - len(ps))))
            else:
                w('    rr = R_f%d(&RS[%d]%s);' % (fi, inst, ''.join(', ' + a for a in args_r)))
            w('    V_ASSUME(!R_stop);')
            if self.assume_no_trap:
                w('    V_ASSUME(!R_trap);')
            w('    expecting_trap = R_trap != 0; phase_real = 1; cur_inst = RI[%d]; cur_id = %d;' % (inst, inst))
            call = '%s(RI[%d]%s)' % (self.export_sym(name), inst, ''.join(', ' + a for a in args_i))
            if rs:
                t = rs[0]
                w('    { %s ri = %s;' % (TYPE_C[t], call))
                w('      V_ASSERT(!expecting_trap, "function returns normally only when the specification does not trap");')
                w('      V_ASSERT(same_%s(bits_of_%s(ri), rr), "result of %s equals reference"); }' % (t, TYPE_C[t], cstr(name)))
            else:
                w('    %s;' % call)
                w('    V_ASSERT(!expecting_trap, "function returns normally only when the specification does not trap");')
            w('    V_ASSERT(I_ncalls == R_ncalls, "host import call count equals reference");')
            w('    V_ASSERT(I_nfx == R_nfx, "wait/notify call count equals reference");')
            for k in range(self.n_inst):
                w('    compare_state(%d, "after call");' % k)
            w('    phase_real = 0; }')
        w('  V_WITNESS("end of script reachable");')
        w('  if (varied_args) V_WITNESS("end of script reachable with varied arguments");')
        w('}')
        return '\n'.join(o) + '\n'


def cstr(s):
    b = s.encode('utf-8') if isinstance(s, str) else s
    return ''.join(chr(c) if 32 <= c < 127 and chr(c) not in '"\\' else '\\%03o' % c for c in b)
