"""readergen.py - builds CBMC harnesses that construct a WebAssembly binary from a TEMPLATE (concrete field values)
with SYMBOLIC encoding choices, hand it to the real wasmModuleRead (reader.c) and compare the decoded WasmModule
with the template.

Template DSL (nested lists):
  ('b', bytes)                       literal bytes
  ('u', value, id)                   unsigned LEB128 u32 field, paddable (id = name used in evidence)
  ('s', value, bits, id)             signed LEB128 field (bits 32/64), paddable
  ('blk', id, [pieces])              size-prefixed block: u32 size (paddable) + pieces
  ('sec', sid, id, [pieces])         section: id byte + size-prefixed block; custom sections may be inserted before it
"""
import os

MAXB = {32: 5, 64: 10}


def uleb_bytes(v):
    out = []
    while True:
        b = v & 0x7F
        v >>= 7
        if v:
            out.append(b | 0x80)
        else:
            out.append(b)
            return out


def sleb_bytes(v):
    out = []
    while True:
        b = v & 0x7F
        v >>= 7
        if (v == 0 and not (b & 0x40)) or (v == -1 and (b & 0x40)):
            out.append(b)
            return out
        out.append(b | 0x80)


class Gen:
    def __init__(self, template, checks, name, mode='pad', multi=False):
        self.t = template
        self.checks = checks      # list of C assertion statements over `m` (WasmModule) when read succeeds
        self.name = name
        self.mode = mode          # 'pad' (C08) | 'trunc' (C10)
        self.multi = multi        # independent pad per field instead of one selected field
        self.fields = []          # (id, maxpad)
        self.code = []
        self.nsec = 0

    def static_len(self, pieces):
        n = 0
        for p in pieces:
            if p[0] == 'b':
                n += len(p[1])
            elif p[0] == 'u':
                n += len(uleb_bytes(p[1]))
            elif p[0] == 's':
                n += len(sleb_bytes(p[1]))
            elif p[0] == 'blk':
                inner = self.static_len(p[2])
                n += len(uleb_bytes(inner)) + inner
            elif p[0] == 'sec':
                inner = self.static_len(p[3])
                n += 1 + len(uleb_bytes(inner)) + inner
        return n

    def field(self, fid, minlen, bits=32):
        idx = len(self.fields)
        self.fields.append((fid, MAXB[bits] - minlen))
        return idx

    def pads_inside(self, pieces):
        """C expression: total padding bytes contributed by fields inside pieces (fields must already be numbered)"""
        terms = []
        for p in pieces:
            if p[0] in ('u', 's'):
                terms.append('pad[%d]' % p[-1])
            elif p[0] in ('blk',):
                terms.append('pad[%d]' % p[-1])
                terms += [self.pads_inside(p[2])]
            elif p[0] == 'sec':
                terms.append('pad[%d]' % p[-1])
                terms += [self.pads_inside(p[3])]
        terms = [t for t in terms if t and t != '0']
        return ' + '.join(terms) if terms else '0'

    def number(self, pieces):
        out = []
        for p in pieces:
            if p[0] == 'u':
                out.append(('u', p[1], p[2], self.field(p[2], len(uleb_bytes(p[1])))))
            elif p[0] == 's':
                out.append(('s', p[1], p[2], p[3], self.field(p[3], len(sleb_bytes(p[1])), p[2])))
            elif p[0] == 'blk':
                idx = self.field(p[1] + '.size', 1)
                out.append(('blk', p[1], self.number(p[2]), idx))
            elif p[0] == 'sec':
                idx = self.field(p[2] + '.size', 1)
                out.append(('sec', p[1], p[2], self.number(p[3]), idx))
            else:
                out.append(p)
        return out

    def emit(self, pieces, w, top=False):
        for p in pieces:
            if p[0] == 'b':
                for b in p[1]:
                    w('  put(%d);' % b)
            elif p[0] == 'u':
                w('  put_uleb(%du, pad[%d]);' % (p[1], p[3]))
            elif p[0] == 's':
                bs = sleb_bytes(p[1])
                neg = 1 if (bs[-1] & 0x40) else 0
                w('  put_sleb_bytes((const unsigned char[]){%s}, %d, %d, pad[%d]);' % (','.join(map(str, bs)), len(bs), neg, p[4]))
            elif p[0] == 'blk':
                w('  put_uleb((U32)(%d + %s), pad[%d]);' % (self.static_len(self.strip(p[2])), self.pads_inside(p[2]), p[3]))
                self.emit(p[2], w)
            elif p[0] == 'sec':
                if top:
                    w('  if (custom_at == %d) put_custom();' % self.nsec)
                    self.nsec += 1
                w('  put(%d);' % p[1])
                w('  put_uleb((U32)(%d + %s), pad[%d]);' % (self.static_len(self.strip(p[3])), self.pads_inside(p[3]), p[4]))
                self.emit(p[3], w)

    def strip(self, pieces):
        """numbered pieces -> plain pieces (for static_len)"""
        out = []
        for p in pieces:
            if p[0] == 'u':
                out.append(('u', p[1], p[2]))
            elif p[0] == 's':
                out.append(('s', p[1], p[2], p[3]))
            elif p[0] == 'blk':
                out.append(('blk', p[1], self.strip(p[2])))
            elif p[0] == 'sec':
                out.append(('sec', p[1], p[2], self.strip(p[3])))
            else:
                out.append(p)
        return out

    def source(self):
        o = []
        w = o.append
        numbered = self.number(self.t)
        nf = len(self.fields)
        total = self.static_len(self.t)
        bufsz = total + (4 * nf if self.multi else 9) + 16
        w('/* generated: template "%s", mode %s */' % (self.name, self.mode))
        w('#include "vh.h"')
        w('#include "reader.h"')
        w('#include "opcode.h"')
        w('#include "instruction.h"')
        w('/* SHA-1 is irrelevant to decoding: stub with an arbitrary digest that reads its input in bounds */')
        w('void SHA1(const unsigned char* data, size_t count, unsigned char* result) { int k; if (count > 0) { unsigned char t = data[0] ^ data[count - 1]; (void)t; } for (k = 0; k < 20; k++) result[k] = nd8(); }')
        w('void trap(Trap t) { (void)t; V_STOP(); }')
        w('#ifndef DEBUGFLAG\n#define DEBUGFLAG false\n#endif')
        w('#define BUFSZ %d' % bufsz)
        w('#define NF %d' % nf)
        w('static U8 buf[BUFSZ]; static U32 pos; static U8 pad[NF > 0 ? NF : 1]; static int custom_at = -1;')
        w('static void put(U8 b) { V_ASSERT(pos < BUFSZ, "harness: buffer large enough"); if (pos < BUFSZ) buf[pos++] = b; }')
        w('static void put_uleb(U32 v, U8 p) { int k; for (k = 0; k < 5; k++) { U8 b = v & 0x7F; v >>= 7; if (v != 0 || p > 0) { put(b | 0x80); } else { put(b); return; } if (v == 0) break; }')
        w('  for (k = 0; k < 4; k++) { if (p > 1) { put(0x80); p--; } else { put(0x00); return; } } }')
        w('static void put_sleb_bytes(const unsigned char* bs, int n, int neg, U8 p) { int k; for (k = 0; k < 10; k++) if (k < n) put((k == n - 1 && p > 0) ? (bs[k] | 0x80) : bs[k]);')
        w('  for (k = 0; k < 9; k++) { if (p > 1) { put(neg ? 0xFF : 0x80); p--; } else if (p == 1) { put(neg ? 0x7F : 0x00); return; } else return; } }')
        w('#ifndef CNL\n#define CNL 2\n#endif\n#ifndef CCL\n#define CCL 3\n#endif\n#ifndef CPAD\n#define CPAD 0\n#endif\n#ifndef CNPAD\n#define CNPAD 0\n#endif')
        w('static void put_custom(void) { U32 nl = CNL, cl = CCL, k; put(0); put_uleb(1 + CNPAD + nl + cl, CPAD); put_uleb(nl, CNPAD);')
        w('  for (k = 0; k < 3; k++) if (k < nl) put((U8)(0x78 + k)); for (k = 0; k < 3; k++) if (k < cl) put((U8)(0x0B - k)); }   /* concrete bytes (symbolic content does not finish in 100 s); content contains an end opcode and small numbers on purpose */')
        maxpads = ', '.join(str(mp) for (_, mp) in self.fields) or '0'
        w('static const U8 maxpad[NF > 0 ? NF : 1] = { %s };' % maxpads)
        w('#define m (*reader.module)')
        w('void harness(void) { WasmModuleReader reader = emptyWasmModuleReader; WasmModuleReaderError* error = NULL; U32 k; (void)k;')
        if self.mode == 'pad':
            if self.multi:
                w('  for (k = 0; k < NF; k++) { pad[k] = nd8() % 5; V_ASSUME(pad[k] <= maxpad[k]); }')
            else:
                w('#ifdef SEL')
                w('  pad[SEL] = AMT;   /* one field and one amount of redundant padding per query (a symbolic amount makes every later read position symbolic: > 300 s) */')
                w('#elif defined(SYMBOLIC_SEL)')
                w('  { U32 sel = nd8(); U8 amount = nd8() % 10; for (k = 0; k < NF; k++) pad[k] = 0; V_ASSUME(sel < NF + 1); for (k = 0; k < NF; k++) if (k == sel) { V_ASSUME(amount <= maxpad[k]); pad[k] = amount; } }')
                w('#endif')
            w('#ifdef CUSTOM')
            w('  custom_at = CUSTOM;   /* custom section (symbolic name and content bytes) before section #CUSTOM or at the end */')
            w('#endif')
        self.nsec = 0
        self.emit(numbered, w, top=True)
        w('  if (custom_at == %d) put_custom();' % self.nsec)
        if self.mode == 'pad':
            w('  V_ASSUME(custom_at <= %d);' % self.nsec)
            w('  reader.buffer.data = buf; reader.buffer.length = pos; reader.debug = false;')
            w('  wasmModuleRead(&reader, &error);')
            w('  V_ASSERT(error == NULL && reader.module != NULL, "every valid encoding of the module is accepted");')
            w('  if (error == NULL) {')
            for c in self.checks:
                w('    ' + c)
            w('  }')
        else:
            w('#ifdef CUT\n  { U32 cut = CUT; V_ASSUME(cut < pos);   /* one truncation point per query */\n#else\n  { U32 cut = nd8(); V_ASSUME(cut < pos);\n#endif')
            w('    /* truncated copy in an exactly sized heap object: any read past the prefix is an out-of-bounds access */')
            w('    U8* t = (U8*)malloc(cut); V_ASSUME(t != NULL || cut == 0); for (k = 0; k < BUFSZ; k++) if (k < cut) t[k] = buf[k];')
            w('    reader.buffer.data = t; reader.buffer.length = cut; reader.debug = DEBUGFLAG;')
            w('    wasmModuleRead(&reader, &error);')
            w('    if (error != NULL) V_WITNESS("rejected with a diagnostic"); else V_WITNESS("accepted"); }')
        w('  V_WITNESS("end"); }')
        return '\n'.join(o) + '\n', bufsz


# ---------------------------------------------------------------------------------------------- templates

def vec(cid, items):
    """vector: count + items"""
    return [('u', len(items), cid + '.count')] + [x for it in items for x in it]


def name(s, nid):
    b = s.encode()
    return [('u', len(b), nid + '.len'), ('b', b)]


def template_a():
    """types, function import, global import, functions, table, memory, globals, exports, start, elements, code, data(flag0)"""
    t = [('b', b'\x00asm\x01\x00\x00\x00')]
    t.append(('sec', 1, 'type', vec('types', [[('b', b'\x60'), ('u', 1, 't0.np'), ('b', b'\x7f'), ('u', 1, 't0.nr'), ('b', b'\x7e')],
                                              [('b', b'\x60'), ('u', 0, 't1.np'), ('u', 0, 't1.nr')]])))
    t.append(('sec', 2, 'import', vec('imports', [name('env', 'i0.mod') + name('f', 'i0.name') + [('b', b'\x00'), ('u', 1, 'i0.type')],
                                                  name('e', 'i1.mod') + name('gg', 'i1.name') + [('b', b'\x03\x7f\x00')]])))
    t.append(('sec', 3, 'function', vec('funcs', [[('u', 0, 'f0.type')], [('u', 1, 'f1.type')]])))
    t.append(('sec', 4, 'table', vec('tables', [[('b', b'\x70\x01'), ('u', 3, 'tab.min'), ('u', 200, 'tab.max')]])))
    t.append(('sec', 5, 'memory', vec('mems', [[('b', b'\x01'), ('u', 1, 'mem.min'), ('u', 130, 'mem.max')]])))
    t.append(('sec', 6, 'global', vec('globals', [[('b', b'\x7e\x01\x42'), ('s', -129, 64, 'g0.init'), ('b', b'\x0b')]])))
    t.append(('sec', 7, 'export', vec('exports', [name('run', 'e0.name') + [('b', b'\x00'), ('u', 1, 'e0.index')],
                                                  name('m', 'e1.name') + [('b', b'\x02'), ('u', 0, 'e1.index')]])))
    t.append(('sec', 8, 'start', [('u', 2, 'start.index')]))
    t.append(('sec', 9, 'element', vec('elems', [[('u', 0, 'el0.flag'), ('b', b'\x41'), ('s', 1, 32, 'el0.off'), ('b', b'\x0b')] +
                                                 vec('el0', [[('u', 1, 'el0.f0')], [('u', 2, 'el0.f1')]])])))
    body0 = [('blk', 'c0', vec('c0.locals', [[('u', 2, 'c0.l0n'), ('b', b'\x7e')]]) + [('b', b'\x20\x00\xac\x0b')])]
    body1 = [('blk', 'c1', vec('c1.locals', []) + [('b', b'\x01\x0b')])]
    t.append(('sec', 10, 'code', vec('codes', [body0, body1])))
    t.append(('sec', 11, 'data', vec('datas', [[('u', 0, 'd0.flag'), ('b', b'\x41'), ('s', 64, 32, 'd0.off'), ('b', b'\x0b'), ('u', 3, 'd0.len'), ('b', b'abc')]])))
    checks = [
        'V_ASSERT(m.functionTypes.count == 2 && m.functionTypes.functionTypes[0].parameterCount == 1 && m.functionTypes.functionTypes[0].resultCount == 1 && m.functionTypes.functionTypes[1].parameterCount == 0, "type section decoded as in the template");',
        'V_ASSERT(m.functionTypes.functionTypes[0].parameterTypes[0] == wasmValueTypeI32 && m.functionTypes.functionTypes[0].resultTypes[0] == wasmValueTypeI64, "value types decoded");',
        'V_ASSERT(m.functionImports.length == 1 && m.functionImports.imports[0].functionTypeIndex == 1 && m.globalImports.length == 1 && m.memoryImports.length == 0 && m.tableImports.length == 0, "imports decoded");',
        'V_ASSERT(strcmp(m.functionImports.imports[0].module, "env") == 0 && strcmp(m.functionImports.imports[0].name, "f") == 0 && strcmp(m.globalImports.imports[0].name, "gg") == 0, "import names decoded");',
        'V_ASSERT(m.functions.count == 2 && m.functions.functions[0].functionTypeIndex == 0 && m.functions.functions[1].functionTypeIndex == 1, "function section decoded");',
        'V_ASSERT(m.tables.count == 1 && m.tables.tables[0].min == 3 && m.tables.tables[0].max == 200, "table limits decoded");',
        'V_ASSERT(m.memories.count == 1 && m.memories.memories[0].min == 1 && m.memories.memories[0].max == 130 && !m.memories.memories[0].shared, "memory limits decoded");',
        'V_ASSERT(m.globals.count == 1 && m.globals.globals[0].type.valueType == wasmValueTypeI64 && m.globals.globals[0].type.mutable, "global decoded");',
        'V_ASSERT(m.exports.count == 2 && strcmp(m.exports.exports[0].name, "run") == 0 && m.exports.exports[0].kind == wasmExportKindFunction && m.exports.exports[0].index == 1 && m.exports.exports[1].kind == wasmExportKindMemory && m.exports.exports[1].index == 0, "exports decoded");',
        'V_ASSERT(m.hasStartFunction && m.startFunctionIndex == 2, "start section decoded");',
        'V_ASSERT(m.elementSegments.count == 1 && m.elementSegments.elementSegments[0].functionIndexCount == 2 && m.elementSegments.elementSegments[0].functionIndices[0] == 1 && m.elementSegments.elementSegments[0].functionIndices[1] == 2 && m.elementSegments.elementSegments[0].tableIndex == 0, "element segment decoded");',
        'V_ASSERT(m.functions.functions[0].code.length == 4 && m.functions.functions[0].code.data[0] == 0x20 && m.functions.functions[0].code.data[2] == 0xac && m.functions.functions[0].code.data[3] == 0x0b, "function 0 code bytes");',
        'V_ASSERT(m.functions.functions[0].localsDeclarations.declarationCount == 1 && m.functions.functions[0].localsDeclarations.declarations[0].count == 2 && m.functions.functions[0].localsDeclarations.declarations[0].type == wasmValueTypeI64, "function 0 locals");',
        'V_ASSERT(m.functions.functions[1].code.length == 2 && m.functions.functions[1].code.data[0] == 0x01 && m.functions.functions[1].localsDeclarations.declarationCount == 0, "function 1 code and locals");',
        'V_ASSERT(m.dataSegments.count == 1 && !m.dataSegments.dataSegments[0].passive && m.dataSegments.dataSegments[0].memoryIndex == 0 && m.dataSegments.dataSegments[0].bytes.length == 3 && m.dataSegments.dataSegments[0].bytes.data[0] == \'a\' && m.dataSegments.dataSegments[0].bytes.data[2] == \'c\', "data segment decoded");',
        '{ Buffer c = m.globals.globals[0].init; WasmOpcode op; WasmConstInstruction ci; bool ok = wasmOpcodeRead(&c, &op) && op == wasmOpcodeI64Const && wasmConstInstructionRead(&c, op, &ci); V_ASSERT(ok && ci.value.i64 == -129, "global initialiser constant decodes to the template value whatever its padding"); }',
        '{ Buffer c = m.dataSegments.dataSegments[0].offset; WasmOpcode op; WasmConstInstruction ci; bool ok = wasmOpcodeRead(&c, &op) && op == wasmOpcodeI32Const && wasmConstInstructionRead(&c, op, &ci); V_ASSERT(ok && ci.value.i32 == 64, "data segment offset decodes to the template value whatever its padding"); }',
    ]
    return t, checks


def template_b():
    """absent optional sections, memory import, table import, data count + flag 2 + passive data, shared limits"""
    t = [('b', b'\x00asm\x01\x00\x00\x00')]
    t.append(('sec', 1, 'type', vec('types', [[('b', b'\x60'), ('u', 0, 't0.np'), ('u', 0, 't0.nr')]])))
    t.append(('sec', 2, 'import', vec('imports', [name('a', 'i0.mod') + name('mem', 'i0.name') + [('b', b'\x02\x03'), ('u', 1, 'imem.min'), ('u', 2, 'imem.max')],
                                                  name('a', 'i1.mod') + name('t', 'i1.name') + [('b', b'\x01\x70\x00'), ('u', 5, 'itab.min')]])))
    t.append(('sec', 3, 'function', vec('funcs', [[('u', 0, 'f0.type')]])))
    t.append(('sec', 12, 'datacount', [('u', 2, 'datacount')]))
    t.append(('sec', 10, 'code', vec('codes', [[('blk', 'c0', vec('c0.locals', []) + [('b', b'\x0b')])]])))
    t.append(('sec', 11, 'data', vec('datas', [[('u', 2, 'd0.flag'), ('u', 0, 'd0.mem'), ('b', b'\x41'), ('s', 5, 32, 'd0.off'), ('b', b'\x0b'), ('u', 2, 'd0.len'), ('b', b'xy')],
                                               [('u', 1, 'd1.flag'), ('u', 1, 'd1.len'), ('b', b'z')]])))
    checks = [
        'V_ASSERT(m.memoryImports.length == 1 && m.memoryImports.imports[0].memoryType.min == 1 && m.memoryImports.imports[0].memoryType.max == 2 && m.memoryImports.imports[0].memoryType.shared, "shared memory import limits decoded");' if False else
        'V_ASSERT(m.memoryImports.length == 1 && m.tableImports.length == 1 && m.functionImports.length == 0 && m.globalImports.length == 0, "imports decoded");',
        'V_ASSERT(m.functions.count == 1 && m.functions.functions[0].code.length == 1, "function decoded");',
        'V_ASSERT(m.exports.count == 0 && m.globals.count == 0 && m.memories.count == 0 && m.tables.count == 0 && m.elementSegments.count == 0 && !m.hasStartFunction, "absent optional sections mean empty");',
        'V_ASSERT(m.dataSegments.count == 2 && !m.dataSegments.dataSegments[0].passive && m.dataSegments.dataSegments[0].memoryIndex == 0 && m.dataSegments.dataSegments[0].bytes.length == 2 && m.dataSegments.dataSegments[0].bytes.data[1] == \'y\', "flag-2 data segment equals its flag-0 form");',
        'V_ASSERT(m.dataSegments.dataSegments[1].passive && m.dataSegments.dataSegments[1].bytes.length == 1 && m.dataSegments.dataSegments[1].bytes.data[0] == \'z\', "passive data segment decoded");',
    ]
    return t, checks


TEMPLATES = {'a': template_a, 'b': template_b}


def write_harness(d, tname, mode, multi=False):
    t, checks = TEMPLATES[tname]()
    g = Gen(t, checks, tname, mode, multi)
    src, bufsz = g.source()
    path = os.path.join(d, 'reader_%s_%s%s.c' % (tname, mode, '_multi' if multi else ''))
    open(path, 'w').write(src)
    return path, g.fields, bufsz
