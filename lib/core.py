"""core.py - shared machinery: scratch builds of /repo, CBMC job runner (portfolio, witness
check, trace -> replay vector -> native replay), known findings, evidence files."""
import json, os, re, shutil, signal, subprocess, sys, tempfile, time, threading, hashlib
from concurrent.futures import ThreadPoolExecutor, as_completed

VERIF = os.path.dirname(os.path.dirname(os.path.abspath(__file__)))
REPO = os.environ.get('W2C2_REPO', '/repo')
H = os.path.join(VERIF, 'h')
NPROC = int(os.environ.get('VERIF_JOBS', '0')) or (os.cpu_count() or 4)
GUARD = 'W2C2_VERIF'

FEATURE_DEFS = ['-DHAS_PTHREAD=1', '-DHAS_UNISTD=1', '-DHAS_GETOPT=1', '-DHAS_LIBGEN=1',
                '-DHAS_STRDUP=1', '-DHAS_GLOB=1']

BACKENDS = {
    'sat': [],
    'cadical': ['--sat-solver', 'cadical'],
    'kissat': ['--external-sat-solver', 'kissat'],
    'z3': ['--z3'],
    'cvc5': ['--cvc5'],
}


def log(*a):
    print(*a, flush=True)


class Ctx:
    def __init__(self, prop, tier, seed):
        self.prop, self.tier, self.seed = prop, tier, seed
        self.t0 = time.time()
        base = os.environ.get('VERIF_SCRATCH', '/var/tmp')
        self.scratch = tempfile.mkdtemp(prefix='w2c2verif.%s.' % prop, dir=base)
        self._translators = {}
        self._lock = threading.Lock()
        self.quick = tier == 'quick'
        global TMPROOT
        TMPROOT = os.path.join(self.scratch, 'tmp')
        os.makedirs(TMPROOT, exist_ok=True)
        os.environ['TMPDIR'] = TMPROOT    # compilers and every other child of this run as well

    def cleanup(self):
        shutil.rmtree(self.scratch, ignore_errors=True)

    def dir(self, name):
        d = os.path.join(self.scratch, name)
        os.makedirs(d, exist_ok=True)
        return d

    def translator(self, defs=None, tag='default', cc='gcc', extra=None):
        """Build the real w2c2 translator from /repo's working tree (cached per run)."""
        with self._lock:
            if tag in self._translators:
                return self._translators[tag]
            d = self.dir('translator_' + tag)
            srcs = sorted(f for f in os.listdir(os.path.join(REPO, 'w2c2'))
                          if f.endswith('.c') and not f.endswith('_test.c') and f != 'test.c')
            cmd = [cc, '-O1', '-w'] + (FEATURE_DEFS if defs is None else defs) + ['-D%s=1' % GUARD] + \
                  (extra or []) + [os.path.join(REPO, 'w2c2', s) for s in srcs] + \
                  ['-o', os.path.join(d, 'w2c2'), '-lpthread', '-lm']
            r = subprocess.run(cmd, capture_output=True, text=True)
            if r.returncode != 0:
                raise BrokenMachinery('translator build failed (%s):\n%s' % (tag, r.stderr[-3000:]))
            self._translators[tag] = os.path.join(d, 'w2c2')
            return self._translators[tag]


class BrokenMachinery(Exception):
    pass


class Job:
    """One solver query (plus its reachability witnesses)."""
    def __init__(self, name, sources, entry='harness', incs=(), defs=(), flags=(), backends=('sat',),
                 timeout=None, replay=None, sample=None, group=None, cwd=None, unwind=None,
                 nontrivial=True, big_endian=False, extra_checks=(), no_default_checks=False,
                 expect_fail=(), kind='cbmc', witnesses=('.',), auto_check_files=None, ignore_desc=()):
        self.name, self.sources, self.entry = name, list(sources), entry
        self.incs, self.defs, self.flags = list(incs), list(defs), list(flags)
        self.backends = list(backends)
        self.timeout = timeout
        self.replay = replay          # dict(sources=[...], incs=[...], defs=[...], libs=[...], asan=bool)
        self.sample = sample if sample is not None else {'job': name}
        self.group = group or name
        self.cwd = cwd
        self.unwind = unwind
        self.nontrivial = nontrivial
        self.big_endian = big_endian
        self.extra_checks = list(extra_checks)
        self.no_default_checks = no_default_checks
        self.auto_check_files = auto_check_files   # basenames: instrumented (non-user) checks count only in these files
        self.ignore_desc = list(ignore_desc)
        self.validate_witness = False      # force the native re-run of this job's witness trace (see run_check)
        self.witnesses = list(witnesses)   # regexes: each must match a WITNESS assertion reported FAILED
        self.expect_fail = list(expect_fail)   # regexes of descriptions expected to FAIL (treated like witnesses)

    def cmd(self, backend, trace_prop=None):
        c = ['cbmc'] + self.sources + ['--function', self.entry, '--json-ui', '--verbosity', '8', '--drop-unused-functions',
                                       '--unwinding-assertions', '-I', H]
        for i in self.incs:
            c += ['-I', i]
        c += self.defs
        if self.unwind is not None:
            c += ['--unwind', str(self.unwind)]
        if self.big_endian:
            c += ['--big-endian']
        c += self.extra_checks + self.flags + BACKENDS[backend]
        if trace_prop:
            c += ['--trace', '--property', trace_prop]
        return c


class Result:
    def __init__(self, job):
        self.job = job
        self.status = 'inconclusive'    # ok | violation | inconclusive
        self.reason = ''
        self.failed = []                # [(property, description)]
        self.witness_ok = 0
        self.witness_bad = []
        self.n_props = 0
        self.backend = None
        self.wall = 0.0
        self.solver_s = 0.0
        self.vccs = (0, 0)
        self.witness_props = []   # (property name, description) of witnesses reported violated
        self.steps = 0        # CBMC: size of program expression (SSA steps of the unwound program)
        self.unwound = 0      # loop iterations / recursion levels unwound by symbolic execution
        self.sat_vars = 0
        self.sat_clauses = 0
        self.rss_kb = 0
        self.replays = []               # dicts


def _parse_json(text):
    try:
        return json.loads(text)
    except Exception:
        # truncated output (killed): try to salvage
        return None


TMPROOT = None   # set by Ctx: per-run directory for the temporary files of solver processes


def _run_proc(cmd, timeout, cwd=None, mem_gb=12):
    # every solver process gets its own TMPDIR below the run's scratch directory: cbmc leaves its external-sat CNF file
    # (up to GBs) behind when the process is killed because another back end answered first; the directory is removed
    # as soon as the portfolio is decided (and with the scratch directory at the latest)
    import tempfile
    root = TMPROOT or '/var/tmp'
    os.makedirs(root, exist_ok=True)
    tmpd = tempfile.mkdtemp(prefix='solver_', dir=root)
    env = dict(os.environ, TMPDIR=tmpd)
    def pre():
        os.setsid()
        try:
            import resource
            lim = mem_gb * 1024 ** 3
            resource.setrlimit(resource.RLIMIT_AS, (lim, lim))
        except Exception:
            pass
    p = subprocess.Popen(cmd, stdout=subprocess.PIPE, stderr=subprocess.PIPE, text=True, cwd=cwd,
                         preexec_fn=pre, env=env)
    p.vh_tmpdir = tmpd
    return p


def _kill(p):
    try:
        os.killpg(p.pid, signal.SIGKILL)
    except Exception:
        pass


def run_portfolio(job, trace_prop=None, timeout=None, backends=None):
    """Run job on all its back ends concurrently; the first conclusive answer wins."""
    backends = backends or job.backends
    timeout = timeout or job.timeout or 300
    procs = {}
    outs = {}
    t0 = time.time()
    for b in backends:
        procs[b] = _run_proc(job.cmd(b, trace_prop), timeout, cwd=job.cwd)
    readers = {}
    def rd(b, p):
        o, e = p.communicate()
        outs[b] = (o, e, p.returncode)
    for b, p in procs.items():
        th = threading.Thread(target=rd, args=(b, p), daemon=True)
        th.start()
        readers[b] = th
    winner = None
    errors = {}
    while time.time() - t0 < timeout:
        alive = False
        for b in backends:
            if b in outs and b not in errors and winner is None:
                o, e, rc = outs[b]
                data = _parse_json(o)
                concl = False
                if data is not None and rc in (0, 10):
                    for m in data:
                        if isinstance(m, dict) and 'result' in m:
                            concl = True
                    if '(error' in o or '(error' in e or 'returned error' in o or 'returned error' in e:
                        concl = False
                if concl:
                    winner = b
                    break
                errors[b] = (o, e, rc)
            if readers[b].is_alive():
                alive = True
        if winner or not alive:
            break
        time.sleep(0.05)
    if winner is None:
        # final sweep
        for b in backends:
            if b in outs and b not in errors:
                o, e, rc = outs[b]
                data = _parse_json(o)
                if data is not None and rc in (0, 10) and any(isinstance(m, dict) and 'result' in m for m in data) \
                        and '(error' not in o and 'returned error' not in o:
                    winner = b
                    break
                errors[b] = (o, e, rc)
    for b, p in procs.items():
        if readers[b].is_alive():
            _kill(p)
    for b, p in procs.items():
        shutil.rmtree(getattr(p, 'vh_tmpdir', ''), ignore_errors=True)
    wall = time.time() - t0
    if winner is None:
        why = 'timeout %ds' % timeout if not errors or len(errors) < len(backends) else 'error'
        detail = ''
        for b, (o, e, rc) in errors.items():
            msgs = []
            data = _parse_json(o)
            if data:
                for m in data:
                    if isinstance(m, dict) and m.get('messageType') == 'ERROR':
                        msgs.append(m.get('messageText', '')[:600])
            detail += '[%s rc=%s] %s %s\n' % (b, rc, ' | '.join(msgs)[:1500], (e or '')[-400:])
        return None, None, wall, why + '\n' + detail
    return winner, _parse_json(outs[winner][0]), wall, ''


def run_job(job, ctx):
    res = Result(job)
    backend, data, wall, err = run_portfolio(job)
    res.wall = wall
    if data is None:
        res.reason = err
        return res
    res.backend = backend
    props = []
    for m in data:
        if not isinstance(m, dict):
            continue
        if 'result' in m:
            props = m['result']
        t = m.get('messageText', '')
        mm = re.search(r'Generated (\d+) VCC\(s\), (\d+) remaining', t)
        if mm:
            res.vccs = (int(mm.group(1)), int(mm.group(2)))
        mm = re.search(r'size of program expression: (\d+) steps', t)
        if mm:
            res.steps = int(mm.group(1))
        if t.startswith('Unwinding loop') or t.startswith('Unwinding recursion'):
            res.unwound += 1
        mm = re.search(r'^(\d+) variables, (\d+) clauses', t)
        if mm:
            res.sat_vars, res.sat_clauses = int(mm.group(1)), int(mm.group(2))
        mm = re.search(r'Runtime Solver: ([\d.e+-]+)s', t)
        if mm:
            res.solver_s += float(mm.group(1))
        mm = re.search(r'Runtime decision procedure: ([\d.e+-]+)s', t)
        if mm:
            res.solver_s = max(res.solver_s, float(mm.group(1)))
    res.n_props = len(props)
    failed = []
    wfailed = []
    model_limit = False
    for p in props:
        d = p.get('description', '')
        st = p.get('status')
        is_w = d.startswith('WITNESS') or any(re.search(x, d) for x in job.expect_fail)
        pname = p.get('property', '')
        is_user = '.assertion.' in pname or '.unwind.' in pname or '.recursion' in pname
        if not is_w and not is_user:
            if any(re.search(x, d) for x in job.ignore_desc):
                continue
            if job.auto_check_files is not None:
                f = os.path.basename(p.get('sourceLocation', {}).get('file', '') or '')
                if f not in job.auto_check_files:
                    continue
        if is_w:
            if st == 'FAILURE':
                res.witness_ok += 1
                wfailed.append(d)
                res.witness_props.append((p.get('property'), d))
            elif st != 'SUCCESS':
                res.reason += 'witness %s status %s; ' % (d, st)
        else:
            if st == 'FAILURE' and d.startswith('unwinding assertion'):
                res.reason += 'unwinding bound too small (%s %s): not a verdict; ' % (p.get('property'), d)
            elif st == 'FAILURE' and re.match(r'(sprintf model|model limit):', d):
                # the harness's environment model does not cover what the code now does (e.g. a printf conversion the
                # contract model has no rule for): that says nothing about the property, so it is not a verdict
                res.reason += 'harness model does not cover the code (%s): not a verdict; ' % d
                model_limit = True
            elif st == 'FAILURE':
                failed.append((p.get('property'), d))
            elif st != 'SUCCESS':
                res.reason += 'property %s status %s; ' % (p.get('property'), st)
    if failed and model_limit:
        # other assertions of this harness were written against the modelled contract; once the code leaves the model
        # their failure is not evidence about the property
        return res
    if failed:
        res.status = 'violation'
        res.failed = failed
        res.reason = ''
        return res
    if res.reason:
        return res
    for wre in job.witnesses:
        if not any(re.search(wre, d) for d in wfailed):
            res.witness_bad.append(wre)
    if res.witness_bad:
        res.reason = 'vacuity: witness not reachable: ' + '; '.join(res.witness_bad)
        return res
    if res.witness_ok == 0:
        res.reason = 'no reachability witness in harness'
        return res
    res.status = 'ok'
    return res


def extract_inputs(data, prop):
    """nd*() return values in call order from the trace of property `prop`."""
    vals = []
    for m in data:
        if isinstance(m, dict) and 'result' in m:
            for p in m['result']:
                if p.get('property') == prop and 'trace' in p:
                    for s in p['trace']:
                        if s.get('stepType') == 'assignment' and not s.get('hidden') and s.get('lhs') == 'v' \
                                and s.get('sourceLocation', {}).get('function') in ('nd8', 'nd16', 'nd32', 'nd64'):
                            b = s.get('value', {}).get('binary')
                            if b is not None:
                                vals.append(int(b, 2))
                            else:
                                vals.append(int(re.sub(r'[^0-9-]', '', s['value'].get('data', '0')) or 0))
                    return vals
    return None


def do_replay(job, res, prop, desc, ctx, outdir):
    """Re-run cbmc with --trace for one failed property, turn the assignment into a native run."""
    info = {'property': prop, 'description': desc, 'confirmed': None, 'dir': outdir}
    os.makedirs(outdir, exist_ok=True)
    backend, data, wall, err = run_portfolio(job, trace_prop=prop, backends=[res.backend] if res.backend else None)
    if data is None:
        info['note'] = 'trace run failed: ' + err[:300]
        return info
    vals = extract_inputs(data, prop)
    if vals is None:
        info['note'] = 'no trace for property'
        return info
    with open(os.path.join(outdir, 'inputs.txt'), 'w') as f:
        for v in vals:
            f.write('%x\n' % v)
    for s in job.sources:
        try:
            shutil.copy(s, outdir)
        except Exception:
            pass
    with open(os.path.join(outdir, 'cbmc_cmd.txt'), 'w') as f:
        f.write(' '.join(job.cmd(res.backend or job.backends[0], prop)) + '\n')
    rp = job.replay
    if not rp:
        info['note'] = 'no native replay defined for this harness'
        return info
    exe = os.path.join(outdir, 'replay.bin')
    cc = rp.get('cc', 'gcc')
    cmd = [cc, '-g', '-O0', '-w', '-DREPLAY', '-I', H] + ['-I' + i for i in rp.get('incs', job.incs)] + \
          rp.get('defs', job.defs) + (['-fsanitize=address,undefined', '-fno-sanitize-recover=all'] if rp.get('asan') else []) + \
          rp.get('sources', job.sources) + ['-o', exe] + rp.get('libs', ['-lm', '-lpthread'])
    with open(os.path.join(outdir, 'run.sh'), 'w') as f:
        f.write('#!/bin/sh\n# native replay of %s : %s\ncd "$(dirname "$0")"\n%s && VH_INPUT=inputs.txt ./replay.bin\n' %
                (job.name, desc, ' '.join(cmd)))
    os.chmod(os.path.join(outdir, 'run.sh'), 0o755)
    r = subprocess.run(cmd, capture_output=True, text=True)
    if r.returncode != 0:
        info['note'] = 'native replay build failed: ' + r.stderr[-800:]
        return info
    env = dict(os.environ, VH_INPUT=os.path.join(outdir, 'inputs.txt'),
               ASAN_OPTIONS='detect_leaks=0:abort_on_error=0', UBSAN_OPTIONS='print_stacktrace=1')
    try:
        r = subprocess.run([exe], capture_output=True, text=True, env=env, timeout=60, cwd=outdir)
        full = r.stdout + r.stderr
        out = full[-1500:]
        m = re.search(r'(ERROR: AddressSanitizer[^\n]*|runtime error:[^\n]*|SUMMARY: [^\n]*)', full)
        if m:
            out = m.group(1) + ' ... ' + out[-600:]
        info['native_rc'] = r.returncode
        info['native_out'] = out
        if r.returncode == 1 and 'REPLAY-ASSERT-FAIL' in full:
            info['confirmed'] = True
        elif r.returncode not in (0, 77, 78) and ('Sanitizer' in full or 'runtime error' in full or r.returncode < 0):
            info['confirmed'] = True
        else:
            info['confirmed'] = False
    except subprocess.TimeoutExpired:
        info['confirmed'] = False
        info['note'] = 'native replay timed out'
    return info


# ------------------------------------------------------------------ known findings

def load_findings():
    p = os.path.join(VERIF, 'known_findings.json')
    if not os.path.exists(p):
        return {'findings': [], 'fixed': []}
    return json.load(open(p))


def match_finding(findings, prop, jobname, desc):
    for f in findings.get('findings', []):
        if f['property'] != prop:
            continue
        if re.fullmatch(f.get('job', '.*'), jobname) and re.search(f.get('desc', '.*'), desc):
            return f
    return None


# ------------------------------------------------------------------ driver

def run_check(prop, tier, seed, make_jobs, level, meta):
    """make_jobs(ctx) -> list[Job]; meta: dict with static evidence fields
    (functions_encoded, bounds, assumptions, out_of_claim, technique, aux)"""
    ctx = Ctx(prop, tier, seed)
    t0 = time.time()
    rc = 0
    results = []
    aux = {}
    try:
        try:
            jobs = make_jobs(ctx)
            if isinstance(jobs, tuple):
                jobs, aux = jobs
        except BrokenMachinery as e:
            log('BROKEN machinery: %s' % e)
            write_evidence(prop, tier, seed, level, meta, [], {'broken': str(e)}, time.time() - t0, 0)
            return 2
        findings = load_findings()
        pre = [j for j in jobs if isinstance(j, dict)]
        jobs = [j for j in jobs if not isinstance(j, dict)]
        default_to = 90 if tier == 'quick' else 900
        for j in jobs:
            if j.timeout is None:
                j.timeout = default_to
        log('[%s/%s] %d solver jobs, %d workers, scratch %s' % (prop, tier, len(jobs), NPROC, ctx.scratch))
        width = max(1, NPROC // max(1, max((len(j.backends) for j in jobs), default=1)))
        with ThreadPoolExecutor(max_workers=width) as ex:
            futs = {ex.submit(run_job, j, ctx): j for j in jobs}
            for fu in as_completed(futs):
                r = fu.result()
                results.append(r)
        results.sort(key=lambda r: r.job.name)
        violations = 0
        known_hit = []
        inconcl = []
        replay_root = os.path.join(VERIF, 'replays', prop)
        for r in results:
            if r.status == 'ok':
                continue
            if r.status == 'inconclusive':
                inconcl.append(r)
                log('INCONCLUSIVE job=%s reason=%s' % (r.job.name, r.reason.strip()[:1500]))
                continue
            # violation: split into known / new
            new = []
            for (p, d) in r.failed:
                f = match_finding(findings, prop, r.job.name, d)
                if f:
                    known_hit.append((f, r.job.name, d))
                else:
                    new.append((p, d))
            if not new:
                r.status = 'known'
                continue
            # replay the first new failing property (and report all)
            p, d = new[0]
            outdir = os.path.join(replay_root, re.sub(r'[^A-Za-z0-9_.-]', '_', r.job.name))
            shutil.rmtree(outdir, ignore_errors=True)
            info = do_replay(r.job, r, p, d, ctx, outdir)
            r.replays.append(info)
            with open(os.path.join(outdir, 'violation.json'), 'w') as f:
                json.dump({'job': r.job.name, 'failed': new, 'replay': info, 'sample': r.job.sample}, f, indent=1, default=str)
            if info['confirmed'] is False:
                log('UNCONFIRMED property=%s job=%s assertion="%s" (solver counterexample did not reproduce natively: %s) replay=%s'
                    % (prop, r.job.name, d, (info.get('native_out') or info.get('note') or '')[-200:].replace('\n', ' '), outdir))
                r.status = 'unconfirmed'
                inconcl.append(r)
                continue
            violations += 1
            tag = 'confirmed by native replay' if info['confirmed'] else 'solver counterexample; ' + info.get('note', 'not replayed')
            for (pp, dd) in new[:6]:
                log('  failed: %s : %s' % (pp, dd))
            log('VIOLATION property=%s replay=%s job=%s assertion="%s" (%s)' % (prop, outdir, r.job.name, d, tag))
        for pv in pre:
            f = match_finding(findings, prop, pv['name'], pv['desc'])
            if f:
                known_hit.append((f, pv['name'], pv['desc']))
                continue
            outdir = os.path.join(replay_root, re.sub(r'[^A-Za-z0-9_.-]', '_', pv['name']))
            shutil.rmtree(outdir, ignore_errors=True)
            try:
                shutil.copytree(pv['dir'], outdir)
            except Exception:
                os.makedirs(outdir, exist_ok=True)
            with open(os.path.join(outdir, 'violation.json'), 'w') as fh:
                json.dump(pv, fh, indent=1, default=str)
            violations += 1
            log('VIOLATION property=%s replay=%s job=%s assertion="%s" (concrete run of the real translator)' %
                (prop, outdir, pv['name'], pv['desc'][:300].replace('\n', ' ')))
        # witness-trace validation: for a few decided queries, take the solver's own witness input (the trace that
        # reaches the reachability witness at the end of the harness), and run the SAME harness + real code natively on
        # it (ASan/UBSan where the harness asks for it).  The native run must reach the end without a failed
        # assertion or assumption: CBMC's reading of the code and the compiled code agree on that path.
        wt_ok, wt_bad = [], []
        cand = sorted([r for r in results if r.status == 'ok' and r.job.replay and r.witness_props], key=lambda r: r.wall)
        forced = [r for r in cand if r.job.validate_witness]
        for r in forced + [r for r in cand if not r.job.validate_witness][:(2 if tier == 'quick' else 6)]:
            ends = [x for x in r.witness_props if 'varied' in x[1]] or [x for x in r.witness_props if re.search(r'end', x[1])] or r.witness_props
            wp, wd = ends[-1]
            outdir = os.path.join(ctx.scratch, 'wtrace_' + re.sub(r'[^A-Za-z0-9_.-]', '_', r.job.name))
            try:
                info = do_replay(r.job, r, wp, wd, ctx, outdir)
            except Exception as e:
                info = {'note': 'exception %s' % e}
            good = info.get('native_rc') == 0 and 'REPLAY-ASSUME-FAIL' not in (info.get('native_out') or '') and 'REPLAY-ASSERT-FAIL' not in (info.get('native_out') or '')
            (wt_ok if good else wt_bad).append({'job': r.job.name, 'witness': wd, 'native_rc': info.get('native_rc'), 'note': (info.get('note') or info.get('native_out') or '')[-200:]})
            r.replays.append({'confirmed': bool(good), 'witness': True})
            if info.get('native_rc') == 1 and 'REPLAY-ASSERT-FAIL' in (info.get('native_out') or ''):
                # the compiled real code fails a property assertion on a concrete input although the solver found no failing
                # input: CBMC's reading of the C text and the compiler's differ (undefined behaviour in the code under test,
                # e.g. a call through an incompatible function type).  A concrete failing run of the real code is a violation.
                am = re.search(r'REPLAY-ASSERT-FAIL: ([^\n]*)', info.get('native_out') or '')
                keep = os.path.join(replay_root, re.sub(r'[^A-Za-z0-9_.-]', '_', r.job.name) + '_native')
                shutil.rmtree(keep, ignore_errors=True)
                try:
                    shutil.copytree(outdir, keep)
                except Exception:
                    os.makedirs(keep, exist_ok=True)
                r.status = 'violation'
                r.failed = [('native', am.group(1) if am else 'native assertion failure')]
                violations += 1
                log('VIOLATION property=%s replay=%s job=%s assertion="%s" (native run of the compiled real code on the solver\'s witness input fails, '
                    'while the solver finds no failing input: the code relies on behaviour the C standard leaves undefined)' % (prop, keep, r.job.name, am.group(1) if am else ''))
        aux = dict(aux or {})
        aux['witness_traces_replayed_natively_ok'] = len(wt_ok)
        if wt_bad:
            aux['witness_traces_replay_mismatch'] = wt_bad
            for b in wt_bad:
                log('NOTE witness trace of job=%s did not replay natively to the end (rc=%s %s)' % (b['job'], b['native_rc'], b['note'].replace('\n', ' ')[-160:]))
        aux['translator_failures'] = len(pre)
        seen = set()
        for (f, jn, d) in known_hit:
            k = f.get('id', f.get('desc'))
            if k in seen:
                continue
            seen.add(k)
            log('KNOWN-FINDING: property=%s %s [%s]' % (prop, f.get('what', ''), f.get('id', '')))
        if violations:
            rc = 1
        elif inconcl:
            rc = 2
        write_evidence(prop, tier, seed, level, meta, results, aux, time.time() - t0, violations)
        ok = sum(1 for r in results if r.status == 'ok')
        log('[%s/%s] jobs=%d ok=%d known=%d violations=%d inconclusive=%d wall=%.1fs' %
            (prop, tier, len(results), ok, sum(1 for r in results if r.status == 'known'), violations,
             len(inconcl), time.time() - t0))
        return rc
    finally:
        ctx.cleanup()


def write_evidence(prop, tier, seed, level, meta, results, aux, wall, violations):
    ok = [r for r in results if r.status in ('ok', 'known')]
    samples = []
    for r in results[:: max(1, len(results) // 8)][:10]:
        s = dict(r.job.sample)
        s.update({'job': r.job.name, 'status': r.status, 'backend': r.backend, 'wall_s': round(r.wall, 2),
                  'properties_checked': r.n_props, 'witnesses_violated_as_required': r.witness_ok})
        samples.append(s)
    nontriv = len(set(r.job.group for r in ok if r.job.nontrivial and r.witness_ok > 0)) if ok else 0
    cov = {
        'evaluations': max(1, len(results)),
        'distinct_nontrivial': nontriv,
        'rule': meta.get('rule', 'one evaluation = one solver query (CBMC symbolic execution of the harness + back-end verdict over all '
                                 'symbolic inputs within the unwinding bound); a query counts as non-trivial when its reachability witness '
                                 '(assert(0) at the end of the harness / inside the trap handler) was reported violated and it has at least '
                                 'one real assertion; distinct = distinct harness/program identifiers'),
        'samples': samples or [{'note': 'no jobs ran'}],
        'queries': len(results),
        'queries_ok': len([r for r in results if r.status == 'ok']),
        'queries_known_finding': len([r for r in results if r.status == 'known']),
        'queries_inconclusive': len([r for r in results if r.status in ('inconclusive', 'unconfirmed')]),
        'queries_violation': len([r for r in results if r.status == 'violation']),
        'assertions_decided': sum(r.n_props for r in results),
        'witnesses_violated_as_required': sum(r.witness_ok for r in results),
        'vccs_generated': sum(r.vccs[0] for r in results),
        'vccs_after_simplification': sum(r.vccs[1] for r in results),
        'solver_seconds': round(sum(r.solver_s for r in results), 2),
        'query_wall_seconds_sum': round(sum(r.wall for r in results), 2),
        'backends_used': sorted(set(r.backend for r in results if r.backend)),
        'functions_encoded': meta.get('functions_encoded', []),
        'bounds': meta.get('bounds', {}),
        'outside_claim': meta.get('out_of_claim', []),
        'exhaustive': False,
    }
    if level == 'translation_validation':
        cov['programs'] = max(1, len(set(r.job.group for r in results)))
        cov['disagreements_checked'] = sum(len(r.failed) for r in results)
    cov['symex_steps'] = sum(r.steps for r in results)
    cov['loop_iterations_unwound'] = sum(r.unwound for r in results)
    cov['sat_variables'] = sum(r.sat_vars for r in results)
    cov['sat_clauses'] = sum(r.sat_clauses for r in results)
    if level == 'model_checking':
        # bounded model checking is symbolic: 'states' counts the SSA steps of the unwound programs (each step stands
        # for ALL concrete states that reach that program point within the bound, not one concrete state), and
        # 'transitions' counts the verification conditions generated over those steps (the assertion / bounds /
        # pointer / unwinding checks that every path through a step must satisfy); both are read from CBMC's own
        # statistics for the winning back end of every query and summed
        cov['states'] = max(1, cov.pop('symex_steps'))
        cov['transitions'] = max(1, cov.pop('vccs_generated'))
        cov['states_transitions_rule'] = ('symbolic: states = sum of CBMC "size of program expression" (SSA steps of the unwound '
                                          'harness+implementation); transitions = sum of CBMC "Generated N VCC(s)"; concrete state '
                                          'counts are not defined for a SAT/SMT-decided query')
        cov['traces_validated_against_impl'] = sum(1 for r in results for i in r.replays if i.get('confirmed'))
    cov.update(aux or {})
    ev = {
        'property_id': prop, 'tier': tier, 'seed': seed, 'level': level, 'coverage': cov,
        'assumptions': meta.get('assumptions', []), 'wall_s': round(wall, 2), 'violations': violations,
        'technique': meta.get('technique', ''),
    }
    os.makedirs(os.path.join(VERIF, 'evidence'), exist_ok=True)
    with open(os.path.join(VERIF, 'evidence', prop + '.json'), 'w') as f:
        json.dump(ev, f, indent=1, default=str)
