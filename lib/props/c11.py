"""C11 - generated C is well-defined (no UB on non-trapping in-bounds inputs) and compiles as GNU C89+."""
import os, subprocess
from core import Job, REPO, H
from e2 import e2_job
import families as F
import wasmvalid

LEVEL = 'translation_validation'
META = {
    'technique': "CBMC's undefined-behaviour instrumentation (signed overflow, invalid shift, division by zero, pointer/bounds/"
                 'pointer-overflow) on the C emitted by the real translator + real w2c2_base.h, under the assumption (decided by the reference run) that the input '
                 'is non-trapping and in bounds; solver verdict over all inputs; plus result equivalence with the reference',
    'functions_encoded': ['C emitted by w2c2 for every numeric/memory/atomic opcode program and for control-flow/call families', 'w2c2_base.h macros and inline functions reached from them'],
    'bounds': {'programs': 'all single-opcode programs of C01/C02, load/store/bulk programs of C05 (scaled pages), atomics subset, control-flow and call families (subset in quick tier)',
               'inputs': 'all non-trapping, in-bounds argument values'},
    'assumptions': ['instrumented checks are counted only in the emitted files and w2c2_base.h (the reference and the harness are not the subject)',
                    'misaligned typed access is not instrumented by CBMC: little-endian loads/stores go through memcpy (checked structurally in evidence: no typed dereference of mem->data in DEFINE_LOAD/STORE)',
                    "out-of-range float->integer casts: CBMC's --conversion-check is imprecise at -2^31/-2^63 (flags the defined cast of exactly MIN), so this class is decided by C02 instead (the cast is reachable only where the reference neither traps nor clamps, at the exact spec boundaries)"],
    'out_of_claim': ['"identical results at -O0..-O3 with gcc and clang" is implied by UB-freedom, not separately run through a solver',
                     'compile gates (gcc/clang, -std=gnu89 and default, -fsyntax-only) are concrete compiler runs reported as auxiliary'],
}


def compile_gate(ctx, job):
    """auxiliary: each emitted file must compile on its own as GNU89 and default C with gcc and clang"""
    bad = []
    srcs = [s for s in job.sources if os.path.basename(s) != 'h.c']
    incs = []
    for i in job.incs:
        incs += ['-I', i]
    for cc in ('gcc', 'clang'):
        for std in (['-std=gnu89'], []):
            for s in srcs:
                r = subprocess.run([cc] + std + ['-fsyntax-only', '-Werror=declaration-after-statement', '-Werror=implicit-function-declaration',
                                                 '-Wno-long-long'] + incs + job.defs + [s], capture_output=True, text=True)
                if r.returncode != 0:
                    bad.append('%s %s %s: %s' % (cc, ' '.join(std), os.path.basename(s), r.stderr[-300:]))
    return bad


def structural_memcpy(ctx):
    """little-endian DEFINE_LOAD / DEFINE_STORE bodies must reach guest memory only through memcpy"""
    import re
    src = os.path.join(ctx.dir('struct'), 't.c')
    open(src, 'w').write('#include "w2c2_base.h"\n')
    r = subprocess.run(['gcc', '-E', '-P', '-I', os.path.join(REPO, 'w2c2'), src], capture_output=True, text=True)
    bad = []
    n = 0
    for mm in re.finditer(r'static __inline__ (\w+) ((?:i32|i64|f32|f64)_(?:load|store)\w*)\(wasmMemory\* mem, U64 addr[^)]*\) \{(.*?)\n?\}', r.stdout, re.S):
        n += 1
        body = mm.group(3)
        if body.count('mem->data') != 1 or not re.search(r'memcpy\(\s*(&result, &mem->data\[addr\]|&mem->data\[addr\], &wrapped)', body):
            bad.append(mm.group(2))
    return n, bad


def make_jobs(ctx):
    jobs = []
    progs = []
    for op in F.INT_OPS + F.FLOAT_OPS:
        progs.append(('op_' + op.replace('.', '_'), F.single_op(op), [{'call': 'f'}], {}, None, ['sat', 'cvc5', 'kissat'], 70))
    mem = F.memory_family(ctx.seed, True)
    for (name, m, script, hk) in mem:
        if ctx.quick and not (name.endswith('_o0_a0') or name.startswith('store') and name.endswith('_o0') or name.startswith('bulk') or name.startswith('grow_seq0')):
            continue
        progs.append((name, m, script, hk, 64, ['sat', 'kissat'], 14))
    at = F.atomics_family(ctx.seed, True)
    for k, (name, m, script, hk) in enumerate(at):
        if ctx.quick and k % 4 != 0:
            continue
        progs.append((name, m, script, hk, 64, ['sat', 'kissat'], 14))
    ncf = 12 if ctx.quick else 120
    for k in range(ncf):
        progs.append(('cf_%d' % k, F.control_flow(0, k), [{'call': 'f', 'assume': {0: '$ <= 3'}}], {'max_host_calls': 12}, None, ['sat', 'kissat'], 6))
    for k, (name, m, script, hk) in enumerate(F.calls_family(ctx.seed, True)):
        if ctx.quick and k % 3 != 0:
            continue
        progs.append((name, m, script, hk, None, ['sat', 'kissat'], 8))
    gate_bad = []
    for (name, m, script, hk, page, backends, unwind) in progs:
        wasmvalid.validate(m)
        hk = dict(hk)
        hk['assume_no_trap'] = True
        j = e2_job(ctx, name, m, script, backends=backends, unwind=unwind, harness_kw=hk, page=page, ub_checks=True,
                   extra_flags=['--unwindset', 'streq.0:26'], extra_defs=['-DWASM_THREADS_PTHREADS'] if (name.startswith('atomic') or 'shared' in name) else ())
        jobs.append(j)
        if not isinstance(j, dict):
            for b in compile_gate(ctx, j):
                gate_bad.append((name, b))
    for (name, b) in gate_bad[:10]:
        jobs.append({'pre_violation': True, 'name': 'compile_' + name, 'desc': 'emitted C does not compile: ' + b, 'dir': ctx.dir('e2_' + name), 'group': name})
    n, bad = structural_memcpy(ctx)
    for b in bad:
        jobs.append({'pre_violation': True, 'name': 'structural_' + b, 'desc': 'load/store instance %s reaches guest memory other than through memcpy (alignment-unsafe typed access)' % b,
                     'dir': ctx.dir('struct'), 'group': 'structural'})
    aux = {'compile_gate_files_failed': len(gate_bad), 'compile_gate': 'gcc,clang x -std=gnu89,default x every emitted file (-fsyntax-only)',
           'structural_load_store_instances': n, 'structural_failures': bad}
    return jobs, aux
