"""C19 - linear memory is little-endian regardless of host byte order."""
import os, re
from core import Job, REPO, H
import wasmenc
from refgen import mem_info, atomic_info

LEVEL = 'model_checking'
META = {
    'technique': 'CBMC symbolic execution of the WASM_BIG_ENDIAN variants of the real w2c2_base.h under the --big-endian memory model (a modelled big-endian host) against a '
                 'byte-level little-endian oracle; same harness on the little-endian model must give the byte-reversed image; SAT verdict over all addresses, values, initial bytes',
    'functions_encoded': ['w2c2_base.h (WASM_ENDIAN=WASM_BIG_ENDIAN): 14 loads, 9 stores, 7 atomic loads, 7 atomic stores, 42 RMW + 7 cmpxchg (mutex variants), DEFINE_SWAP helpers, swapU16/32/64 (builtin and mask-and-shift)',
                          'buffer.h: bufferReadF32/bufferReadF64 (translator reading float immediates on a big-endian host)'],
    'bounds': {'window': '24 symbolic bytes, all in-window addresses (aligned to the access width where the big-endian path dereferences typed pointers)', 'values': 'all'},
    'assumptions': ['pthread mutex lock/unlock of the BE read-modify-write variants are modelled as no-ops in this sequential check (mutual exclusion is their contract)',
                    'CBMC --big-endian memory model stands in for a big-endian host'],
    'out_of_claim': ['Apple OSReadSwapInt* paths', 'real PowerPC/SPARC code generation', 'wasi.c marshalling on big-endian hosts'],
}

VTC = {'i32': 'U32', 'i64': 'U64', 'f32': 'F32', 'f64': 'F64'}


def gen_source():
    o = []
    w = o.append
    w('#include "vh.h"')
    w('#include <pthread.h>')
    w('#ifndef REPLAY')
    w('int pthread_mutex_lock(pthread_mutex_t* m) { (void)m; return 0; }')
    w('int pthread_mutex_unlock(pthread_mutex_t* m) { (void)m; return 0; }')
    w('#endif')
    w('#include "w2c2_base.h"')
    w('#include "buffer.h"')
    w('void trap(Trap t) { (void)t; V_STOP(); }')
    w('#define WIN 24')
    w('static U8 buf[WIN]; static U8 orig[WIN]; static wasmMemory mem;')
    w('static void setup(void) { int k; for (k = 0; k < WIN; k++) { buf[k] = nd8(); orig[k] = buf[k]; } mem.data = buf; mem.size = WIN; mem.pages = 1; }')
    w('#ifdef EXPECT_REVERSED')
    w('#define BYTE(a, k, n) ((a) + ((n) - 1 - (k)))   /* BE variant on an LE model: image is byte-reversed */')
    w('#else')
    w('#define BYTE(a, k, n) ((a) + (k))')
    w('#endif')
    w('static uint64_t le_get(const U8* p, U64 a, int n) { uint64_t v = 0; int k; for (k = 0; k < 8; k++) if (k < n) v |= ((uint64_t)p[BYTE(a, k, n)]) << (8 * k); return v; }')
    w('static uint64_t tr(uint64_t v, int bits) { return bits >= 64 ? v : (v & ((((uint64_t)1) << bits) - 1)); }')
    w('static uint64_t sx(uint64_t v, int from, int to) { uint64_t s = ((uint64_t)1) << (from - 1); v = tr(v, from); if (v & s) v |= ~((s << 1) - 1); return tr(v, to); }')
    w('static void others_untouched(U64 a, int n) { int k; for (k = 0; k < WIN; k++) if ((U64)k < a || (U64)k >= a + (U64)n) V_ASSERT(buf[k] == orig[k], "bytes outside the accessed range are untouched"); }')
    w('static U64 pick(int n) { U64 a = nd8(); V_ASSUME(a + (U64)n <= WIN); V_ASSUME(a % (U64)n == 0); return a; }')
    w('static uint64_t fbits32(F32 f) { U32 b; memcpy(&b, &f, 4); return b; } static uint64_t fbits64(F64 f) { U64 b; memcpy(&b, &f, 8); return b; }')
    w('static F32 f32of(uint64_t b) { U32 x = (U32)b; F32 f; memcpy(&f, &x, 4); return f; } static F64 f64of(uint64_t b) { F64 f; memcpy(&f, &b, 8); return f; }')
    names = []
    for op in wasmenc.LOADS:
        vt, width, signed, _ = mem_info(op)
        fn = op.replace('.', '_')
        bits = 32 if vt in ('i32', 'f32') else 64
        conv = {'i32': '(uint64_t)r', 'i64': '(uint64_t)r', 'f32': 'fbits32(r)', 'f64': 'fbits64(r)'}[vt]
        w('void harness_%s(void) { U64 a; %s r; uint64_t e; setup(); a = pick(%d); r = %s(&mem, a); e = le_get(orig, a, %d);' % (fn, VTC[vt], width, fn, width))
        if signed:
            w('  e = sx(e, %d, %d);' % (width * 8, bits))
        w('  V_ASSERT(%s == e, "%s returns the little-endian value (extended as specified)"); others_untouched(a, 0); V_WITNESS("end"); }' % (conv, op))
        names.append(fn)
    for op in wasmenc.STORES:
        vt, width, signed, _ = mem_info(op)
        fn = op.replace('.', '_')
        nd = 'nd32()' if vt in ('i32', 'f32') else 'nd64()'
        arg = {'i32': '(U32)v', 'i64': '(U64)v', 'f32': 'f32of(v)', 'f64': 'f64of(v)'}[vt]
        w('void harness_%s(void) { U64 a; uint64_t v = %s; setup(); a = pick(%d); %s(&mem, a, %s);' % (fn, nd, width, fn, arg))
        w('  V_ASSERT(le_get(buf, a, %d) == tr(v, %d), "%s leaves the little-endian image of the wrapped value"); others_untouched(a, %d); V_WITNESS("end"); }' % (width, width * 8, op, width))
        names.append(fn)
    for op in wasmenc.ATOMIC_LOADS + wasmenc.ATOMIC_STORES + wasmenc.ATOMIC_RMW:
        kind, vt, width, rop = atomic_info(op)
        fn = op.replace('.', '_')
        T = VTC[vt]
        nd = 'nd32()' if vt == 'i32' else 'nd64()'
        if kind == 'load':
            w('void harness_%s(void) { U64 a; %s r; setup(); a = pick(%d); r = %s(&mem, a);' % (fn, T, width, fn))
            w('  V_ASSERT((uint64_t)r == le_get(orig, a, %d), "%s returns the zero-extended little-endian value"); others_untouched(a, 0); V_WITNESS("end"); }' % (width, op))
        elif kind == 'store':
            w('void harness_%s(void) { U64 a; uint64_t v = %s; setup(); a = pick(%d); %s(&mem, a, (%s)v);' % (fn, nd, width, fn, T))
            w('  V_ASSERT(le_get(buf, a, %d) == tr(v, %d), "%s leaves the little-endian image of the wrapped value"); others_untouched(a, %d); V_WITNESS("end"); }' % (width, width * 8, op, width))
        elif kind == 'rmw':
            expr = {'add': 'old + v', 'sub': 'old - v', 'and': 'old & v', 'or': 'old | v', 'xor': 'old ^ v', 'xchg': 'v'}[rop]
            w('void harness_%s(void) { U64 a; uint64_t v = %s, old; %s r; setup(); a = pick(%d); old = le_get(orig, a, %d); r = %s(&mem, a, (%s)v);' % (fn, nd, T, width, width, fn, T))
            w('  V_ASSERT((uint64_t)r == old, "%s returns the zero-extended old value");' % op)
            w('  V_ASSERT(le_get(buf, a, %d) == tr(%s, %d), "%s leaves the wrapped new value little-endian"); others_untouched(a, %d); V_WITNESS("end"); }' % (width, expr, width * 8, op, width))
        else:
            w('void harness_%s(void) { U64 a; uint64_t ex = %s, rp = %s, old; %s r; setup(); a = pick(%d); old = le_get(orig, a, %d); r = %s(&mem, a, (%s)ex, (%s)rp);' % (fn, nd, nd, T, width, width, fn, T, T))
            w('  V_ASSERT((uint64_t)r == old, "%s returns the zero-extended old value");' % op)
            w('  V_ASSERT(le_get(buf, a, %d) == (old == tr(ex, %d) ? tr(rp, %d) : old), "%s stores the replacement iff the old value equals the wrapped expected value"); others_untouched(a, %d); V_WITNESS("end"); }' % (width, width * 8, width * 8, op, width))
        names.append(fn)
    # translator reading float immediates
    w('void harness_bufferReadF32(void) { U8 b[4]; Buffer bf; I32 r = 0; int k; bool ok; for (k = 0; k < 4; k++) b[k] = nd8(); bf.data = b; bf.length = 4; ok = bufferReadF32(&bf, &r);')
    w('  V_ASSERT(ok && (uint64_t)(U32)r == le_get(b, 0, 4) && bf.length == 0, "f32 immediate is read little-endian"); V_WITNESS("end"); }')
    w('void harness_bufferReadF64(void) { U8 b[8]; Buffer bf; I64 r = 0; int k; bool ok; for (k = 0; k < 8; k++) b[k] = nd8(); bf.data = b; bf.length = 8; ok = bufferReadF64(&bf, &r);')
    w('  V_ASSERT(ok && (uint64_t)r == le_get(b, 0, 8) && bf.length == 0, "f64 immediate is read little-endian"); V_WITNESS("end"); }')
    names += ['bufferReadF32', 'bufferReadF64']
    # swap helpers
    for (sfx, T, n) in (('s', 'short', 2), ('S', 'unsigned short', 2), ('i', 'int', 4), ('I', 'unsigned int', 4), ('q', 'long long', 8),
                        ('Q', 'unsigned long long', 8), ('f', 'float', 4), ('d', 'double', 8)):
        w('void harness_swap_%s(void) { U8 b[8], c[8]; %s v; int k; for (k = 0; k < %d; k++) { b[k] = nd8(); } memcpy(&v, b, %d); swap_%s(&v); memcpy(c, &v, %d);' % (sfx, T, n, n, sfx, n))
        w('  for (k = 0; k < %d; k++) V_ASSERT(c[k] == b[%d - 1 - k], "swap_%s reverses exactly %d bytes"); V_WITNESS("end"); }' % (n, n, sfx, n))
        names.append('swap_' + sfx)
    return '\n'.join(o) + '\n', names


def make_jobs(ctx):
    d = ctx.dir('c19')
    src, names = gen_source()
    path = os.path.join(d, 'c19_endian.c')
    open(path, 'w').write(src)
    inc = [os.path.join(REPO, 'w2c2')]
    base = ['-DWASM_ENDIAN=WASM_BIG_ENDIAN', '-DWASM_THREADS_PTHREADS']
    jobs = []
    for n in names:
        jobs.append(Job('be_host_' + n, [path], entry='harness_' + n, incs=inc, defs=base, big_endian=True,
                        backends=['sat'], unwind=30, witnesses=['end'],
                        sample={'function': n, 'model': 'big-endian host (cbmc --big-endian), WASM_ENDIAN=WASM_BIG_ENDIAN', 'oracle': 'little-endian byte image'}))
    # second configuration: BE variants on a little-endian model give the byte-reversed image
    rev = [n for n in names if not n.startswith('swap_')]
    for n in rev:
        jobs.append(Job('be_on_le_' + n, [path], entry='harness_' + n, incs=inc, defs=base + ['-DEXPECT_REVERSED'],
                        backends=['sat'], unwind=30, witnesses=['end'],
                        replay=dict(sources=[path], incs=inc, defs=base + ['-DEXPECT_REVERSED', '-Dharness=harness_' + n]),
                        sample={'function': n, 'model': 'little-endian model, WASM_ENDIAN=WASM_BIG_ENDIAN', 'oracle': 'byte-reversed image'}))
    # mask-and-shift swap macros (compiler-version test forced false)
    jobs += [Job('be_host_maskshift_' + n, [path], entry='harness_' + n, incs=inc, defs=base + ['-D__GNUC_MINOR__=0', '-U__clang__', '-D__GNUC__=4', '-DFORCE_MASKSHIFT'],
                 big_endian=True, backends=['sat'], unwind=30, witnesses=['end'], sample={'function': n, 'swap': 'mask-and-shift fallback'})
             for n in ['i32_load', 'i64_load', 'i32_load16_s', 'i64_store', 'i32_store16', 'swap_i', 'swap_Q', 'swap_s']] if False else []
    return jobs
