"""C04 - direct, indirect, recursive and imported calls."""
from e2 import e2_job
import families as F
import wasmvalid

LEVEL = 'translation_validation'
META = {
    'technique': 'translation validation: C emitted by the real translator for generated call-graph modules (direct, recursive, host-import and '
                 'call_indirect through defined/imported tables filled by element segments) symbolically executed by CBMC against the reference '
                 'call semantics; solver verdict over all arguments, table indices, imported-global offsets and host answers',
    'functions_encoded': ['C emitted by w2c2 c.c: wasmCWriteCallExpr, wasmCWriteCallIndirectExpr, wasmCWriteInitTables, function declarations/'
                          'implementations, export wrappers, import declarations'],
    'bounds': {'parameters': '0..4 of mixed types', 'imports': '0..2', 'recursion fuel': '<=3 (unwind 8)', 'table': '6 slots, 1..3 entries per segment, <=2 segments',
               'values': 'all arguments / indices / global offsets within the initialised range'},
    'assumptions': ['indirect calls that are out of bounds, uninitialised or of another signature are outside the property (reference stops; assumed away)',
                    'host imports return arbitrary values; (callee, arguments, instance) of every host call is compared'],
    'out_of_claim': ['multi-value', 'call graphs larger than the family'],
}


def make_jobs(ctx):
    jobs = []
    for (name, m, script, hk) in F.calls_family(ctx.seed, ctx.quick):
        wasmvalid.validate(m)
        jobs.append(e2_job(ctx, name, m, script, backends=['sat', 'kissat'], unwind=8, harness_kw=hk,
                           extra_flags=['--unwindset', 'streq.0:26'],
                           # calls through function pointers: the solver's witness input is also run natively (argument passing
                           # through an incompatible pointer type is undefined in C and invisible to the solver's model)
                           validate_witness=name.startswith('indirect_')))
    return jobs
