"""C10 - the translator is total and memory-safe on valid modules and on truncated files."""
import os, subprocess
from core import Job, REPO, H
import readergen, families as F, wasmenc, wasmvalid
import c08, c20

LEVEL = 'model_checking'
META = {
    'technique': "CBMC pointer/bounds/deallocation checks on the real translator code: (1) wasmModuleRead on every proper prefix of template modules (exactly sized heap buffer); (2) the string builder, "
                 'name escapers and literal writer on symbolic names/values with a sprintf model that writes the real number of characters; (3) the output-path block with strcpy given its '
                 'C contract. Auxiliary (concrete, reported separately): an ASan/UBSan build of the translator must exit 0 on the generated module families under option combinations',
    'functions_encoded': ['reader.c: wasmModuleRead + all section readers, section.c, instruction.c, leb128.h, buffer.h, array.c', 'stringbuilder.c (all functions)', 'c.c: wasmCWriteStringEscaped, wasmCWriteLiteral, path block of wasmCWriteModule',
                          'main.c: changeToOutputDirectory, cleanImplementationFiles', 'compat.c: basename/dirname'],
    'bounds': {'truncation': 'every cut point 0 < k < 62 of template b and 0 < k < 58 of template a (type/import/function/table/memory sections), with and without -g; later cut points of template a give no verdict within 2400 s', 'names': 'all 256 byte values, 1-2 bytes per name (escaper), builder appends of 0..19 bytes',
               'literals': 'all f32/f64/i32/i64 bit patterns', 'paths': '1..5 characters'},
    'assumptions': ['allocation failure out of scope (--no-malloc-may-fail)', 'sprintf contract model; isalnum modelled for the C locale, tolerant of negative char values like glibc',
                    'signed-shift / signed-overflow UB in the translator is not a memory operation and is not part of this property'],
    'out_of_claim': ['module sizes beyond the templates (thousands of functions/locals: growth paths are covered by the builder/array kernels, not by big inputs)', 'libdwarf paths (not built)',
                     'the concrete ASan runs are auxiliary evidence, not solver verdicts'],
}


def asan_runs(ctx):
    """auxiliary, concrete: sanitizer build of the real translator on valid family members x options must exit 0"""
    tr = ctx.translator(tag='asan', extra=['-g', '-fsanitize=address,undefined', '-fno-sanitize-recover=all', '-fno-omit-frame-pointer'])
    mods = []
    for k in range(6):
        mods.append(('cf%d' % k, F.control_flow(0, k)))
    for (name, m, script, hk) in F.calls_family(0, True)[:6] + F.instantiation_family(0, True)[:6] + F.memory_family(0, True)[:4] + F.const_family(0, True)[:4]:
        mods.append((name, m))
    # names: non-ASCII and punctuation-laden UTF-8, long names
    nm = wasmenc.Module(imports=[wasmenc.Import('env.é', 'café ☃', 'func', ([], []))],
                        funcs=[wasmenc.Func([], [], [], [('call', 0)]), wasmenc.Func([], [], [], [('nop',)])],
                        exports=[('rün-it!', 'func', 1), ('x' * 300, 'func', 2), ('__a__b_X_', 'func', 1)], names={1: 'füü', 2: 'b-a/r'})
    mods.append(('utf8_names', nm))
    for k, nmap in enumerate(({0: 'dup', 1: 'dup', 2: 'zed'}, {0: 'a', 1: 'a', 2: 'a', 3: 'a'}, {0: 'a', 1: 'z', 2: 'z'}, {0: 'q', 2: 'q', 3: 'b', 1: 'b'})):
        mods.append(('dup_names_%d' % k, wasmenc.Module(funcs=[wasmenc.Func([], [], [], [('nop',)]) for _ in range(4)], exports=[('f', 'func', 0)], names=nmap)))
    opts = [[], ['-p'], ['-f', '1', '-t', '1'], ['-f', '2', '-t', '3'], ['-m'], ['-g', '-f', '1', '-t', '2'], ['-g', '-p']]
    fails = []
    n = 0
    d0 = ctx.dir('asan')
    env = dict(os.environ, ASAN_OPTIONS='detect_leaks=0', UBSAN_OPTIONS='print_stacktrace=1:halt_on_error=1')
    for (name, m) in mods:
        wasmvalid.validate(m)
        wb = wasmenc.encode(m)
        for oi, o in enumerate(opts):
            d = os.path.join(d0, '%s_%d' % (name, oi))
            os.makedirs(d, exist_ok=True)
            open(os.path.join(d, 'm.wasm'), 'wb').write(wb)
            n += 1
            try:
                r = subprocess.run([tr] + o + ['m.wasm', 'out.c'], cwd=d, capture_output=True, text=True, timeout=60, env=env)
                if r.returncode != 0:
                    import re
                    msg = re.search(r'(ERROR: AddressSanitizer[^\n]*|runtime error:[^\n]*)', r.stderr or '')
                    # signed-shift/overflow reports are not memory operations (stated out of claim)
                    if msg and 'runtime error' in msg.group(1) and not re.search(r'(null pointer|misaligned|out of bounds|member access|load of)', msg.group(1)):
                        continue
                    fails.append({'pre_violation': True, 'name': 'asan_%s_%d' % (name, oi), 'dir': d, 'group': 'asan',
                                  'desc': 'sanitizer build of the translator fails on a valid module with options %s: %s' % (' '.join(o), (msg.group(1) if msg else (r.stderr or '')[-200:]))})
            except subprocess.TimeoutExpired:
                fails.append({'pre_violation': True, 'name': 'asan_%s_%d' % (name, oi), 'dir': d, 'group': 'asan', 'desc': 'translator does not terminate (60 s) with options %s' % ' '.join(o)})
    return fails, n


def make_jobs(ctx):
    jobs = []
    d = ctx.dir('reader')
    for tn in ('a', 'b'):
        path, fields, bufsz = readergen.write_harness(d, tn, 'trunc')
        total = readergen.Gen(*readergen.TEMPLATES[tn](), name=tn).static_len(readergen.TEMPLATES[tn]()[0])
        # template a: no prefix that ends at or after byte 58 (global section onwards) produced a verdict (probe: cut 90 ran 2400 s
        # without finishing, although the native translator rejects it at once): excluded in both tiers, stated in evidence
        cuts = [c for c in range(1, total) if tn == 'b' or c < 58]
        if ctx.quick:
            # template a: prefixes that end inside the code/data sections (observed from about byte 58 on) take > 300 s each: thorough tier only
            cuts = [c for c in cuts if (c % 2 == (ctx.seed % 2) or c < 16) and (tn == 'b' or c < 58)]
        for cut in cuts:
            for dbg in ((False,) if (ctx.quick and cut % 3) else (False, True)):
                jobs.append(c08.reader_job('trunc_%s_%d%s' % (tn, cut, '_g' if dbg else ''), path, ['-DCUT=%d' % cut, '-DDEBUGFLAG=%s' % ('true' if dbg else 'false')],
                                           witnesses=['end'], timeout=300 if ctx.quick else 1500, sample={'template': tn, 'prefix length': cut, 'debug': dbg}))
    # kernels: names, builder, literals
    W = os.path.join(REPO, 'w2c2')
    for h, defs, un in (('charhex', [], 24), ('escape', ['-DNLEN=2'], 24), ('escape', ['-DNLEN=1'], 24), ('builder', [], 24)):
        src = os.path.join(H, 'kernels', 'c10_names.c')
        jobs.append(Job('names_%s%s' % (h, ''.join(defs).replace('-D', '_')), [src], entry='harness_' + h, incs=[W], defs=c08.DEFS + defs, unwind=un, flags=['--no-malloc-may-fail'],
                        backends=['sat', 'kissat'], witnesses=['end'], timeout=600, sample={'kernel': h}))
    src = os.path.join(H, 'kernels', 'c10_dupnames.c')
    for nf in ((3, 4) if ctx.quick else (2, 3, 4, 5)):
        jobs.append(Job('names_duplicates_%d' % nf, [src], entry='harness_dupnames', incs=[W], defs=c08.DEFS + ['-DNF=%d' % nf], unwind=8, flags=['--no-malloc-may-fail'],
                        backends=['sat', 'kissat'], witnesses=['end'], timeout=600, replay=dict(sources=[src] + [x for x in c08.SRCS if not x.endswith('reader.c')] + [os.path.join(W, 'sha1.c')], incs=[W], defs=c08.DEFS + ['-DNF=%d' % nf, '-Dharness=harness_dupnames'], asan=True),
                        sample={'kernel': 'wasmFunctionNamesRemoveDuplicates', 'functions': nf, 'names': 'each absent or one of a,b,c: every duplicate pattern'}))
    src = os.path.join(H, 'kernels', 'c07_literal.c')
    for t in ('f32', 'f64', 'i32', 'i64'):
        jobs.append(Job('literal_buffers_%s' % t, [src], entry='harness_' + t, incs=[W], defs=c08.DEFS, unwind=40, flags=['--no-malloc-may-fail'], backends=['sat', 'kissat'],
                        witnesses=['end'], timeout=600, sample={'kernel': 'wasmCWriteLiteral buffers', 'type': t}))
    j20, _ = c20.make_jobs(ctx)
    for j in j20:
        if not isinstance(j, dict) and ('outdir' in j.name or 'outnames' in j.name):
            j.name = 'paths_' + j.name
            jobs.append(j)
    fails, n = asan_runs(ctx)
    jobs += fails
    return jobs, {'auxiliary_asan_translator_runs': n, 'auxiliary_asan_failures': len(fails)}
