"""C02 - floating point arithmetic and numeric conversions."""
import os
from core import Job, REPO, H
from e2 import e2_job
import families as F

LEVEL = 'translation_validation'
META = {
    'technique': 'CBMC symbolic execution of C emitted by the real translator (plus the real w2c2_base.h FMIN/FMAX/TRUNC_* macros) '
                 'against bit-level IEEE-754 reference semantics; SAT/SMT verdict over all operand bit patterns',
    'functions_encoded': ['w2c2_base.h: FMIN FMAX TRUNC_S TRUNC_U TRUNC_SAT_S TRUNC_SAT_U (16 instances) DEFINE_REINTERPRET x4',
                          'C emitted by w2c2 for every f32/f64 opcode and every conversion', 'CBMC library models of fabsf copysignf ceilf floorf truncf nearbyintf (+f64)'],
    'bounds': {'operand values': 'all 2^32 / 2^64 bit patterns per operand', 'programs': 'one per float/conversion opcode + 16 chains of 2-3 conversion / rounding / bit operations', 'unwind': 70},
    'assumptions': ['the reference semantics h/ref_ops.h is itself validated on every run against the assert_return/assert_trap vectors of /repo/tests/*.wast (native run; a disagreement aborts the check as broken machinery)', '+,-,*,/ and int->float, promote/demote: oracle is the same C operator evaluated by CBMC (RNE) on the reference operand path: decides '
                    'operator mapping, operand order and width, not IEEE conformance of a compiler',
                    'sqrt/sqrtf are modelled as one uninterpreted function shared by both sides (CBMC library model is nondeterministic)',
                    "CBMC's float model stands in for the host compiler/libm"],
    'out_of_claim': ['IEEE correctness of host compiler and libm', 'x87 excess precision', 'rounding modes other than RNE', 'deeper nested float expressions'],
}


def make_jobs(ctx):
    jobs = []
    for op in F.FLOAT_OPS:
        wit = ['end of script']
        if op in F.TRAPPING:
            wit.append('trap path')
        jobs.append(e2_job(ctx, 'op_' + op.replace('.', '_'), F.single_op(op), [{'call': 'f'}],
                           backends=['sat', 'cvc5', 'kissat'], witnesses=wit, timeout=120 if ctx.quick else 900))
    import wasmvalid
    for k in range(len(F.FLOAT_CHAINS)):
        m = F.float_chain(k)
        wasmvalid.validate(m)
        jobs.append(e2_job(ctx, 'chain_%d' % k, m, [{'call': 'f'}], backends=['sat', 'cvc5', 'kissat'], witnesses=['end of script|trap path'],
                           timeout=200 if ctx.quick else 900, sample={'chain': F.FLOAT_CHAINS[k]}))
    # a comparison immediately followed by the instructions a translator is most likely to fuse it with (peepholes)
    cops = F.comparison_ops(True)
    for oi, op in enumerate(cops):
        for fi, fo in enumerate(F.CMP_FOLLOWERS):
            if ctx.quick and fo not in ('eqz', 'brif') and (oi + fi + ctx.seed) % 4 != 0:
                continue
            jobs.append(e2_job(ctx, 'cmp_%s_%s' % (op.replace('.', '_'), fo), F.cmp_then(op, fo), [{'call': 'f'}], backends=['sat', 'kissat'],
                               unwind=6, timeout=120 if ctx.quick else 600, group='cmp_then'))
    # oracle self-validation against the repository's own specification test vectors (BrokenMachinery on disagreement)
    import wastvec
    aux = wastvec.run_selftest(ctx, lambda op: not (op[0] == 'i' and 'trunc' not in op and 'reinterpret' not in op))
    return jobs, aux
