"""C15 - WASI process services."""
from wasijobs import wasi_job, STUBS
from e2 import e2_job
from wasmenc import *
import wasmvalid

LEVEL = 'model_checking'
META = {
    'technique': 'CBMC symbolic execution of the real wasi.c args/environ/clock/random/proc_exit/thread-spawn entry points against nondeterministic stubs (clock = arbitrary '
                 'non-decreasing instants, getentropy with its documented 256-byte limit, pthread_create = deferred start routine run in either order); plus translation '
                 'validation that the NewChild emitted by w2c2 shares the parent\'s shared memory',
    'functions_encoded': ['wasi.c: args_sizes_get args_get environ_sizes_get environ_get clock_time_get clock_res_get random_get proc_exit wasi__threadX2Dspawn wasiThreadSpawn convertTimespec',
                          'C emitted by w2c2 c.c: wasmCWriteNewChildFunction / InitMemories for a shared memory'],
    'bounds': {'vectors': '0..3 strings of 0..3 symbolic bytes, an extra non-NULL entry after argv[argc]', 'random_get length': '0..300 (crosses the 256-byte getentropy limit)', 'clock ids': 'all 2^32', 'clock seconds': '< 2^20 (single call), < 2^8 (monotonic pair)',
               'spawns': '2, start routines run in both orders'},
    'assumptions': STUBS + ['__atomic_fetch_add on the thread-id counter is atomic (builtin contract, CBMC models it so)'],
    'out_of_claim': ['truly concurrent spawns', 'entropy quality', 'random_get lengths above 300 (2^20 in the property) - the chunking argument is length-independent but not decided beyond the bound'],
}


def make_jobs(ctx):
    t = 400 if ctx.quick else 1200
    us = ['gle.0:9', 'gput.0:9', 'make_vec.0:6', 'make_vec.1:5', 'check_strings.0:5', 'check_strings.1:5', 'total.0:5', 'strlen.0:8', 'memcpy.0:8', 'strcmp.0:24']
    jobs = []
    for h, w in (('args', ['end']), ('environ', ['end']), ('clock', ['end', 'unknown id', 'success']), ('clock_monotonic', ['end', 'both ok']),
                 ('clock_res', ['end', 'unknown id', 'success']), ('exit', ['exit reached']), ('exit_status', ['end']), ('spawn', ['end', 'both spawned']), ('spawn_missing', ['end'])):
        jobs.append(wasi_job('c15_process.c', h, witnesses=w, unwind=6 if h in ('args', 'environ') else 12, unwindset=us, timeout=t,
                             defs=['-DCLK_SEC_MASK=0xFF'] if h == 'clock_monotonic' else [],
                             backends=['sat', 'kissat', 'cvc5'] if h.startswith('clock') else ['sat', 'kissat']))
    jobs.append(wasi_job('c15_process.c', 'random', witnesses=['end'], unwind=12, unwindset=us + ['guest_init.0:410', 'wasiRandomGet.1:302', 'wasiRandomGet.0:4'], defs=['-DGMEM=400'], timeout=t))
    # NewChild shares the parent's shared memory (emitted C)
    f = Func([I32], [I32], [], [('local.get', 0), ('i32.load', 2, 0)])
    m = Module(funcs=[f], mems=[(1, 2, True)], datas=[Data(('i32.const', 4), b'\x07\x08')], exports=[('ld', 'func', 0), ('memory', 'memory', 0)])
    wasmvalid.validate(m)
    jobs.append(e2_job(ctx, 'newchild_shared_memory', m, [{'call': 'ld', 'inst': 0}, {'call': 'ld', 'inst': 1}], backends=['sat', 'kissat'], unwind=14, page=64,
                       harness_kw={'n_inst': 2, 'child_of': 0}, extra_flags=['--unwindset', 'streq.0:26'], extra_defs=['-DWASM_THREADS_PTHREADS']))
    return jobs
