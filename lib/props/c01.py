"""C01 - integer instruction semantics and integer traps."""
import os
from core import Job, REPO, H
from e2 import e2_job
import families as F

LEVEL = 'translation_validation'
META = {
    'technique': 'CBMC symbolic execution of the real w2c2_base.h integer macros (both preprocessor variants) and of C emitted by the real '
                 'translator, against an independent spec reference; SAT/SMT verdict over all operand values',
    'functions_encoded': ['w2c2_base.h: DIV_S REM_S DIVREM_U ROTL ROTR I32/I64_CLZ CTZ POPCNT (builtin and fallback variants)',
                          'C emitted by w2c2 (c.c wasmCWriteFunctionCode and helpers) for every integer opcode and nested expressions'],
    'bounds': {'operand values': 'all 2^32 / 2^64 per operand', 'programs': 'one per integer opcode + generated nested expressions depth<=3',
               'unwind': 70},
    'assumptions': ['the reference semantics h/ref_ops.h is itself validated on every run against the assert_return/assert_trap vectors of /repo/tests/*.wast (native run; a disagreement aborts the check as broken machinery)', 'C99 / and % on the signed/unsigned views are the spec idiv/irem (6.5.5p6); checked: trap predicate, trap code, view, width, operand order',
                    'allocation failure out of scope (--no-malloc-may-fail)'],
    'out_of_claim': ['program shapes outside the generated family (deeper nesting, larger bodies)'],
}

KERNELS = ['i32_rotl', 'i32_rotr', 'i64_rotl', 'i64_rotr', 'i32_clz', 'i32_ctz', 'i32_popcnt', 'i64_clz', 'i64_ctz', 'i64_popcnt']
DIVS = ['i32_div_s', 'i32_rem_s', 'i64_div_s', 'i64_rem_s', 'i32_div_u', 'i32_rem_u', 'i64_div_u', 'i64_rem_u']


def kernel_jobs(ctx):
    src = os.path.join(H, 'kernels', 'c01_int.c')
    inc = [os.path.join(REPO, 'w2c2')]
    jobs = []
    rp = dict(sources=[src], incs=inc, defs=[])
    for variant, defs in (('builtin', []), ('fallback', ['-D__has_builtin(x)=0'])):
        ks = KERNELS if variant == 'builtin' else [k for k in KERNELS if 'rot' not in k]
        for k in ks:
            jobs.append(Job('kernel_%s_%s' % (k, variant), [src], entry='harness_' + k, incs=inc, defs=defs,
                            backends=['sat', 'cvc5'], unwind=70, witnesses=['end'],
                            replay=dict(rp, defs=defs + ['-Dharness=harness_' + k]),
                            sample={'kernel': k, 'variant': variant, 'inputs': 'all operand values'}))
    for k in DIVS:
        for part, wit in (('zero', 'trap path'), ('ovf', 'trap path' if k in ('i32_div_s', 'i64_div_s') else 'end'), ('norm', 'end')):
            jobs.append(Job('kernel_%s_%s' % (k, part), [src], entry='harness_%s_%s' % (k, part), incs=inc,
                            backends=['sat', 'cvc5'], unwind=70, witnesses=[wit],
                            replay=dict(rp, defs=['-Dharness=harness_%s_%s' % (k, part)]),
                            sample={'kernel': k, 'partition': part}))
    return jobs


def make_jobs(ctx):
    jobs = kernel_jobs(ctx)
    for op in F.INT_OPS:
        wit = ['end of script']
        if op in F.TRAPPING:
            wit.append('trap path')
        jobs.append(e2_job(ctx, 'op_' + op.replace('.', '_'), F.single_op(op), [{'call': 'f'}],
                           backends=['sat', 'cvc5'], witnesses=wit))
    n = 24 if ctx.quick else 150
    for k in range(n):
        seed = 0 if k < n * 2 // 3 else ctx.seed + 1
        jobs.append(e2_job(ctx, 'nested_%d_%d' % (seed, k), F.nested_int(seed, k), [{'call': 'f'}],
                           backends=['sat', 'cvc5', 'z3'], witnesses=['end of script|trap path'], group='nested_%d_%d' % (seed, k)))
    # a comparison immediately followed by the instructions a translator is most likely to fuse it with (peepholes)
    cops = F.comparison_ops(False)
    for oi, op in enumerate(cops):
        for fi, fo in enumerate(F.CMP_FOLLOWERS):
            if ctx.quick and fo not in ('eqz', 'brif') and (oi + fi + ctx.seed) % 4 != 0:
                continue
            jobs.append(e2_job(ctx, 'cmp_%s_%s' % (op.replace('.', '_'), fo), F.cmp_then(op, fo), [{'call': 'f'}], backends=['sat', 'kissat'],
                               unwind=6, timeout=120 if ctx.quick else 600, group='cmp_then'))
    # oracle self-validation against the repository's own specification test vectors (BrokenMachinery on disagreement)
    import wastvec
    aux = wastvec.run_selftest(ctx, lambda op: op[0] == 'i' and 'trunc' not in op and 'reinterpret' not in op)
    return jobs, aux
