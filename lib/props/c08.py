"""C08 - translation depends on the decoded module, not on its byte encoding."""
import os, copy, filecmp
from core import Job, REPO, H
import readergen
import families as F
import wasmenc, wasmvalid
from e2 import e2_job, translate

LEVEL = 'model_checking'
META = {
    'technique': '(a) CBMC symbolic execution of the real leb128ReadU32/I32/U64/I64 on an arbitrary byte buffer of arbitrary length against the specification decoder: complete domain of '
                 'valid encodings (every padding); (b) the real wasmModuleRead (reader.c, section.c, instruction.c) executed by CBMC on template modules whose binary is assembled in the harness '
                 'with one redundantly padded LEB128 field / one inserted custom section (every section boundary) per query; the decoded WasmModule must equal the template; '
                 '(c) translation validation of the whole translator on spec-equivalent spellings: programs of the C03-C07/C16 families are encoded with every LEB128 field padded by 1 byte / to '
                 'its maximum (function bodies included: indices, memarg, br_table, const immediates, 0xFC/0xFE sub-opcodes, sizes, counts, name lengths) and with custom sections + flag-2 data '
                 'segments + present-but-empty sections; the real w2c2 translates that binary and CBMC decides equivalence of the emitted C with the reference semantics of the module AST',
    'functions_encoded': ['emitted C of the real translator for every encoding variant (c) + w2c2_base.h', 'leb128.h: leb128ReadU32 leb128ReadI32 leb128ReadU64 leb128ReadI64', 'buffer.h', 'reader.c: wasmModuleRead and every section reader', 'section.c', 'instruction.c: wasmConstInstructionRead', 'valuetype.c', 'array.c', 'export.c'],
    'bounds': {'LEB128': 'all byte strings of length 0..6 (32-bit) / 0..11 (64-bit): complete', 'templates': '2 modules (<= 140 bytes) covering type/import/function/table/memory/global/export/start/element/datacount/code/data sections, '
               'flag-0 / flag-2 / passive data segments, absent optional sections', 'padding': 'every LEB128 field x {1, max} extra bytes (quick) / every amount (thorough), one field at a time',
               'encodings (c)': 'quick: 28 programs x {all fields +1, all fields max, equivalent spelling} + single-field max padding for 3 programs; thorough: every 3rd program of every family (seed-rotated) + every 5th branch-matrix shape; '
               'single-field paddings whose emitted C is byte-identical to the minimal encoding inherit its verdict, others are solver jobs (w2c2 orders function definitions by a key that depends on the body bytes, so the text may be permuted)',
               'custom sections': 'one per query at every section boundary, concrete name (0-3 bytes) and content (0-3 bytes), size field padded 0/2'},
    'assumptions': ['SHA-1 is stubbed (arbitrary digest, input read in bounds): hashing is irrelevant to decoding',
                    'equality of the emitted C for differently encoded binaries follows by composition: c.c reads only the decoded WasmModule and the function-code buffers, which are compared',
                    'call_indirect table byte is not padded (MVP: reserved zero byte)',
                    'the signed left shift (I64)1 << 63 in leb128ReadI64 (formally undefined, not a memory operation, value as on every two\'s-complement compiler) is not counted'],
    'out_of_claim': ['in (b): several fields padded at once (thorough tier pads one at a time as well; symbolic pad amounts make every later read position symbolic and do not finish in 300 s)', 'modules larger than the templates'],
}

W = os.path.join(REPO, 'w2c2')
SRCS = [os.path.join(W, f) for f in ('reader.c', 'section.c', 'instruction.c', 'valuetype.c', 'array.c', 'export.c', 'opcode.c', 'debug.c')]
DEFS = ['-DHAS_PTHREAD=1', '-DHAS_UNISTD=1', '-DHAS_GETOPT=1', '-DHAS_LIBGEN=1', '-DHAS_STRDUP=1', '-DHAS_GLOB=1']


def reader_job(name, path, defs, witnesses=('end',), timeout=300, sample=None):
    return Job(name, [path] + SRCS, incs=[W], defs=DEFS + defs, unwind=12,
               flags=['--no-malloc-may-fail', '--object-bits', '12', '--unwindset', 'harness.0:200,harness.1:200,harness.2:200,SHA1.0:21,put_custom.0:5,put_custom.1:5,wasmModuleRead.0:16'],
               backends=['sat'], witnesses=list(witnesses), timeout=timeout, sample=sample or {},
               # CBMC's default signed-shl / unary-minus overflow instrumentation flags `-((I64)1 << shift)` in
               # leb128ReadI64 at shift 63 (a 9-byte negative i64 constant); that is arithmetic in the decoder, not a
               # statement of C08 (same decoded value) or C10 (memory operations): not counted, as in the LEB kernels
               ignore_desc=[r'arithmetic overflow on signed (shl|unary minus)'],
               replay=dict(sources=[path] + SRCS, incs=[W], defs=DEFS + defs, asan=True))


def make_jobs(ctx):
    jobs = []
    src = os.path.join(H, 'kernels', 'c08_leb.c')
    for t in ('u32', 'i32', 'u64', 'i64'):
        jobs.append(Job('leb128_' + t, [src], entry='harness_' + t, incs=[W], unwind=14, backends=['sat', 'kissat'], witnesses=['end', 'valid encoding'], ignore_desc=[r'arithmetic overflow on signed (shl|unary minus)'],
                        replay=dict(sources=[src], incs=[W], defs=['-Dharness=harness_' + t]),
                        sample={'kernel': 'leb128Read' + t.upper(), 'inputs': 'all byte strings / lengths'}))
    d = ctx.dir('reader')
    for tn in ('a', 'b'):
        path, fields, bufsz = readergen.write_harness(d, tn, 'pad')
        jobs.append(reader_job('reader_%s_minimal' % tn, path, [], sample={'template': tn, 'encoding': 'minimal'}))
        for k, (fid, mp) in enumerate(fields):
            amounts = sorted(set([1, mp])) if ctx.quick else range(1, mp + 1)
            for a in amounts:
                if a <= mp and a > 0:
                    jobs.append(reader_job('reader_%s_pad_%s_%d' % (tn, fid, a), path, ['-DSEL=%d' % k, '-DAMT=%d' % a], sample={'template': tn, 'padded field': fid, 'extra bytes': a}))
        nsec = sum(1 for p in readergen.TEMPLATES[tn]()[0] if p[0] == 'sec')
        for pos in range(nsec + 1):
            for (nl, cl, cp, npad) in (((2, 3, 0, 0), (0, 0, 2, 0), (3, 1, 0, 1), (1, 0, 1, 4)) if ctx.quick else ((2, 3, 0, 0), (0, 0, 2, 0), (3, 0, 1, 1), (1, 3, 4, 4), (3, 3, 0, 2), (0, 2, 0, 3))):
                jobs.append(reader_job('reader_%s_custom_at%d_%d%d%d%d' % (tn, pos, nl, cl, cp, npad), path,
                                       ['-DCUSTOM=%d' % pos, '-DCNL=%d' % nl, '-DCCL=%d' % cl, '-DCPAD=%d' % cp, '-DCNPAD=%d' % npad],
                                       sample={'template': tn, 'custom section before section #': pos, 'name/content bytes': '%d/%d' % (nl, cl), 'size padding': cp, 'name-length padding': npad}))
    enc, aux = encoding_jobs(ctx)
    return jobs + enc, aux


# ---------------------------------------------------------------------------------------------------------------
# (c) whole translator on spec-equivalent encodings: the module is encoded with redundant LEB128 padding in every
# field (function bodies included: indices, memarg, br_table, const immediates, 0xFC/0xFE sub-opcodes, section and
# body sizes, counts, name lengths), or with custom sections at section boundaries + flag-2 data segments + empty
# vector sections; the REAL translator translates that binary and CBMC decides equivalence of the emitted C with the
# reference semantics of the (encoding-independent) module AST.
NOPAD = ('.ci.table',)     # MVP: reserved zero byte, not a LEB128 field


def pool(ctx):
    out = []
    cf_script = [{'call': 'f', 'assume': {0: '$ <= 3'}}]
    uw = ['--unwindset', 'streq.0:26']
    bm = dict(F.branch_matrix())
    for n in ('brtable_n3_p0', 'br_i64_d3_l1_e2_if', 'locals_groups_1') if ctx.quick else [x for i, x in enumerate(sorted(bm)) if i % 5 == ctx.seed % 5]:
        out.append(('cf_' + n, bm[n], cf_script, dict(harness_kw={'max_host_calls': 8}, unwind=6, extra_flags=uw)))
    for k in ((3, 11) if ctx.quick else range(0, 60, 3)):
        out.append(('cfr_%d' % k, F.control_flow(0, k), cf_script, dict(harness_kw={'max_host_calls': 12}, unwind=6, extra_flags=uw)))
    def pick(fam, names, kw):
        lst = fam(ctx.seed, ctx.quick)
        for li, (name, m, script, hk) in enumerate(lst):
            # thorough: every 3rd program of each family, rotating with the seed (the families themselves are decided in full by C04-C07/C16)
            if (names is None and li % 3 == ctx.seed % 3) or (names is not None and name in names):
                k2 = dict(kw); k2['harness_kw'] = hk
                if 'shared' in name or name.startswith('atomic') or name.startswith('futex'):
                    k2['extra_defs'] = ['-DWASM_THREADS_PTHREADS']
                out.append((name, m, script, k2))
    q = ctx.quick
    pick(F.calls_family, ('direct_p4_i1_at1', 'recursion', 'indirect_deftab_global_123_2', 'indirect_imptab_const_12') if q else None, dict(unwind=8, extra_flags=uw))
    pick(F.memory_family, ('load_i64_load16_s_o13_a0', 'store_i64_store32_o1', 'grow_seq1_max3', 'bulk_fill_n3', 'bulk_copy_n1', 'bulk_init_n2', 'bulk_seq') if q else None,
         dict(unwind=14, page=64, extra_flags=uw, timeout=300 if q else 900))
    pick(F.instantiation_family, ('inst_memdef_tabdef_start1_n1_v0', 'inst_memimp_tabimp_start1_n1_v1', 'inst_memimp_tabdef_start1_n2_v1') if q else None,
         dict(unwind=14, page=64, extra_flags=uw, timeout=300 if q else 900))
    pick(F.const_family, ('const_i64_2', 'const_i32_1', 'const_offset_5') if q else None, dict(unwind=14, page=64, extra_flags=uw))
    al = [x[0] for x in F.atomics_family(ctx.seed, ctx.quick)]
    pick(F.atomics_family, (al[0], al[21], al[-1]) if q else None, dict(unwind=14, page=64, extra_flags=uw))
    for op in (('i32.trunc_sat_f32_s', 'i64.trunc_sat_f64_u', 'i64.extend32_s') if q else [o for o in F.FLOAT_OPS if 'sat' in o]):
        wit = ['end of script']
        out.append(('op_' + op.replace('.', '_'), F.single_op(op), [{'call': 'f'}], dict(witnesses=wit, timeout=120 if q else 600)))
    return out


def equiv_spelling(m):
    m2 = copy.deepcopy(m)
    m2.customs = list(m2.customs) + [(1, 'a', b''), (3, '', b'\x01\x02'), (10, 'producers', b'\x00'), (11, 'x', b'\xff' * 5), ('end', 'zz', b'')]
    for d in m2.datas:
        if not d.passive:
            d.flag2 = True
    m2.empty_sections = (1, 2, 3, 4, 5, 6, 7, 9, 10, 11)
    return m2


def same_output(d1, files1, d2, files2):
    if sorted(files1) != sorted(files2):
        return False
    return all(filecmp.cmp(os.path.join(d1, f), os.path.join(d2, f), shallow=False) for f in files1)


def encoding_jobs(ctx):
    jobs = []
    n_fields = n_identical = n_variants = 0
    for (name, m, script, kw) in pool(ctx):
        wasmvalid.validate(m)
        fields = [f for f in wasmenc.paddable_fields(m) if not f.endswith(NOPAD)]
        kw = dict(kw)
        kw.setdefault('backends', ['sat', 'kissat'])
        variants = [('p1', m, {f: 1 for f in fields}), ('pmax', m, {f: 10 for f in fields}), ('equiv', equiv_spelling(m), None)]
        for (vn, mm, pad) in variants:
            if vn == 'equiv':
                wasmvalid.validate(mm)
            n_variants += 1
            jobs.append(e2_job(ctx, 'enc_%s_%s' % (name, vn), mm, script, pad=pad, group='enc_' + name,
                               sample={'encoding': vn, 'fields_padded': len(pad or {}), 'minimal_bytes': len(wasmenc.encode(m)), 'bytes': len(wasmenc.encode(mm, pad))}, **kw))
        if not ctx.quick or name in ('bulk_seq', 'cf_brtable_n3_p0', 'indirect_deftab_global_123_2'):
            # one field at a time, padded to its maximum length: when the emitted C is byte-identical to the C emitted for
            # the minimal encoding the verdict of the minimal encoding carries over (same text, same behaviour) and no
            # solver run is needed; any difference gets its own solver job
            base = ctx.dir('e2_encbase_' + name)
            bfiles, err = translate(ctx, base, wasmenc.encode(m), ())
            if bfiles is None:
                jobs.append({'pre_violation': True, 'name': 'enc_%s_minimal' % name, 'desc': 'translator fails on a valid module: ' + err, 'dir': base, 'group': 'enc_' + name})
                continue
            jobs.append(e2_job(ctx, 'enc_%s_minimal' % name, m, script, group='enc_' + name, sample={'encoding': 'minimal'}, **kw))
            for f in fields:
                n_fields += 1
                d = ctx.dir('e2_encf_%s_%d' % (name, n_fields))
                files, err = translate(ctx, d, wasmenc.encode(m, {f: 10}), ())
                if files is not None and same_output(base, bfiles, d, files):
                    n_identical += 1
                    continue
                jobs.append(e2_job(ctx, 'enc_%s_field_%s' % (name, f), m, script, pad={f: 10}, group='enc_' + name, sample={'encoding': 'one field padded to max', 'field': f}, **kw))
    aux = {'encoding_variants_solver_decided': n_variants, 'single_field_paddings_translated': n_fields,
           'single_field_paddings_with_byte_identical_C': n_identical,
           'single_field_rule': 'byte-identical emitted C inherits the solver verdict of the minimal encoding (enc_<program>_minimal); every other case is its own solver job'}
    return jobs, aux
