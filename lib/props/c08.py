"""C08 - translation depends on the decoded module, not on its byte encoding."""
import os
from core import Job, REPO, H
import readergen

LEVEL = 'model_checking'
META = {
    'technique': '(a) CBMC symbolic execution of the real leb128ReadU32/I32/U64/I64 on an arbitrary byte buffer of arbitrary length against the specification decoder: complete domain of '
                 'valid encodings (every padding); (b) the real wasmModuleRead (reader.c, section.c, instruction.c) executed by CBMC on template modules whose binary is assembled in the harness '
                 'with one redundantly padded LEB128 field / one inserted custom section (every section boundary) per query; the decoded WasmModule must equal the template',
    'functions_encoded': ['leb128.h: leb128ReadU32 leb128ReadI32 leb128ReadU64 leb128ReadI64', 'buffer.h', 'reader.c: wasmModuleRead and every section reader', 'section.c', 'instruction.c: wasmConstInstructionRead', 'valuetype.c', 'array.c', 'export.c'],
    'bounds': {'LEB128': 'all byte strings of length 0..6 (32-bit) / 0..11 (64-bit): complete', 'templates': '2 modules (<= 140 bytes) covering type/import/function/table/memory/global/export/start/element/datacount/code/data sections, '
               'flag-0 / flag-2 / passive data segments, absent optional sections', 'padding': 'every LEB128 field x {1, max} extra bytes (quick) / every amount (thorough), one field at a time',
               'custom sections': 'one per query at every section boundary, concrete name (0-3 bytes) and content (0-3 bytes), size field padded 0/2'},
    'assumptions': ['SHA-1 is stubbed (arbitrary digest, input read in bounds): hashing is irrelevant to decoding',
                    'equality of the emitted C for differently encoded binaries follows by composition: c.c reads only the decoded WasmModule and the function-code buffers, which are compared',
                    'paddings inside function bodies are covered by the LEB128 kernel (instruction decoders call the same readers)',
                    'the signed left shift (I64)1 << 63 in leb128ReadI64 (formally undefined, not a memory operation, value as on every two\'s-complement compiler) is not counted'],
    'out_of_claim': ['several fields padded at once (thorough tier pads one at a time as well; symbolic pad amounts make every later read position symbolic and do not finish in 300 s)', 'modules larger than the templates'],
}

W = os.path.join(REPO, 'w2c2')
SRCS = [os.path.join(W, f) for f in ('reader.c', 'section.c', 'instruction.c', 'valuetype.c', 'array.c', 'export.c', 'opcode.c', 'debug.c')]
DEFS = ['-DHAS_PTHREAD=1', '-DHAS_UNISTD=1', '-DHAS_GETOPT=1', '-DHAS_LIBGEN=1', '-DHAS_STRDUP=1', '-DHAS_GLOB=1']


def reader_job(name, path, defs, witnesses=('end',), timeout=300, sample=None):
    return Job(name, [path] + SRCS, incs=[W], defs=DEFS + defs, unwind=12,
               flags=['--no-malloc-may-fail', '--object-bits', '12', '--unwindset', 'harness.0:200,harness.1:200,harness.2:200,SHA1.0:21,put_custom.0:5,put_custom.1:5,wasmModuleRead.0:16'],
               backends=['sat'], witnesses=list(witnesses), timeout=timeout, sample=sample or {},
               replay=dict(sources=[path] + SRCS, incs=[W], defs=DEFS + defs, asan=True))


def make_jobs(ctx):
    jobs = []
    src = os.path.join(H, 'kernels', 'c08_leb.c')
    for t in ('u32', 'i32', 'u64', 'i64'):
        jobs.append(Job('leb128_' + t, [src], entry='harness_' + t, incs=[W], unwind=14, backends=['sat', 'kissat'], witnesses=['end', 'valid encoding'], ignore_desc=[r'arithmetic overflow on signed (shl|unary minus)'],
                        replay=dict(sources=[src], incs=[W], defs=['-Dharness=harness_' + t]),
                        sample={'kernel': 'leb128Read' + t.upper(), 'inputs': 'all byte strings / lengths'}))
    d = ctx.dir('reader')
    for tn in ('a', 'b'):
        path, fields, bufsz = readergen.write_harness(d, tn, 'pad')
        jobs.append(reader_job('reader_%s_minimal' % tn, path, [], sample={'template': tn, 'encoding': 'minimal'}))
        for k, (fid, mp) in enumerate(fields):
            amounts = sorted(set([1, mp])) if ctx.quick else range(1, mp + 1)
            for a in amounts:
                if a <= mp and a > 0:
                    jobs.append(reader_job('reader_%s_pad_%s_%d' % (tn, fid, a), path, ['-DSEL=%d' % k, '-DAMT=%d' % a], sample={'template': tn, 'padded field': fid, 'extra bytes': a}))
        nsec = sum(1 for p in readergen.TEMPLATES[tn]()[0] if p[0] == 'sec')
        for pos in range(nsec + 1):
            for (nl, cl, cp, npad) in (((2, 3, 0, 0), (0, 0, 2, 0), (3, 1, 0, 1), (1, 0, 1, 4)) if ctx.quick else ((2, 3, 0, 0), (0, 0, 2, 0), (3, 0, 1, 1), (1, 3, 4, 4), (3, 3, 0, 2), (0, 2, 0, 3))):
                jobs.append(reader_job('reader_%s_custom_at%d_%d%d%d%d' % (tn, pos, nl, cl, cp, npad), path,
                                       ['-DCUSTOM=%d' % pos, '-DCNL=%d' % nl, '-DCCL=%d' % cl, '-DCPAD=%d' % cp, '-DCNPAD=%d' % npad],
                                       sample={'template': tn, 'custom section before section #': pos, 'name/content bytes': '%d/%d' % (nl, cl), 'size padding': cp, 'name-length padding': npad}))
    return jobs
