"""C16 - atomic memory instructions (values; atomicity by structure + builtin contract)."""
import os, re, subprocess
from core import Job, REPO, H
from e2 import e2_job
import families as F
import wasmvalid

LEVEL = 'translation_validation'
META = {
    'technique': 'translation validation: emitted C + real w2c2_base.h DEFINE_ATOMIC_* (CBMC implements the __atomic_* builtins) against a byte-level reference '
                 'for all 63 atomic flavours, all operands, symbolic memory; sequences of two RMW operations; structural obligation that every instance is '
                 'exactly one seq_cst __atomic builtin on &mem->data[addr]',
    'functions_encoded': ['w2c2_base.h: DEFINE_ATOMIC_LOAD x7, DEFINE_ATOMIC_STORE x7, DEFINE_ATOMIC_RMW x35, DEFINE_ATOMIC_RMW_XCHG x7 (via RMW), DEFINE_ATOMIC_RMW_CMPXCHG x7',
                          'C emitted by w2c2 c.c: wasmCWriteAtomicLoadExpr/StoreExpr/RMWExpr/RMWCmpxchgExpr/FenceExpr'],
    'bounds': {'operands': 'all values', 'addresses': 'all naturally aligned in-bounds addresses', 'static offsets': '{0,8,24}', 'page size': 'scaled to 64 bytes (hook)',
               'sequences': 'two RMW/cmpxchg operations + read-back'},
    'assumptions': ['atomicity across threads is inherited from the contract of the GCC __atomic builtins with __ATOMIC_SEQ_CST (trusted); the check decides that each '
                    'flavour is one such builtin of the right width on the right address (structural scan of the preprocessed header) and that its sequential semantics are right',
                    'CBMC native threads cannot encode this code base (DESIGN.md E3)'],
    'out_of_claim': ['hardware/compiler implementation of the builtins', 'MSVC intrinsics path', 'true multi-thread interleavings of atomic instructions'],
}


def structural(ctx):
    """Preprocess the real header and inspect every atomic instance: exactly one __atomic_* builtin with __ATOMIC_SEQ_CST
    on (Un*)(&mem->data[addr]) and no other access to mem->data."""
    src = os.path.join(ctx.dir('struct'), 't.c')
    open(src, 'w').write('#include "w2c2_base.h"\n')
    r = subprocess.run(['gcc', '-E', '-P', '-I', os.path.join(REPO, 'w2c2'), src], capture_output=True, text=True)
    txt = r.stdout
    bad = []
    n = 0
    for mm in re.finditer(r'static __inline__ (U32|U64|void) (i(?:32|64)_atomic_\w+)\(wasmMemory\* mem, U64 addr[^)]*\) \{(.*?)\n?\}', txt, re.S):
        name, body = mm.group(2), mm.group(3)
        n += 1
        builtins = re.findall(r'__atomic_\w+', body)
        width = re.search(r'(?:load|store|rmw)(8|16|32)', name)
        w = int(width.group(1)) if width else (32 if name.startswith('i32') else 64)
        ok = len(builtins) == 1 and body.count('mem->data') == 1 and '(U%d*)(&mem->data[addr])' % w in body.replace(' ', '').replace('(U%d*)(&mem->data[addr])' % w, '(U%d*)(&mem->data[addr])' % w)
        seq = body.count('5') >= 1  # __ATOMIC_SEQ_CST expands to 5
        if not (ok and re.search(r',\s*5\s*[,)]', body)):
            bad.append(name)
    return n, bad


def make_jobs(ctx):
    jobs = []
    n, bad = structural(ctx)
    aux = {'structural_instances_inspected': n, 'structural_failures': bad}
    if n < 63:
        jobs.append({'pre_violation': True, 'name': 'structural_scan', 'desc': 'structural scan found only %d atomic instances in w2c2_base.h (expected 63)' % n,
                     'dir': ctx.dir('struct'), 'group': 'structural'})
    for b in bad:
        jobs.append({'pre_violation': True, 'name': 'structural_' + b, 'desc': 'atomic instance %s is not a single seq_cst __atomic builtin on &mem->data[addr]' % b,
                     'dir': ctx.dir('struct'), 'group': 'structural'})
    for (name, m, script, hk) in F.atomics_family(ctx.seed, ctx.quick):
        wasmvalid.validate(m)
        jobs.append(e2_job(ctx, name, m, script, backends=['sat', 'kissat'], unwind=14, harness_kw=hk, page=64,
                           extra_flags=['--unwindset', 'streq.0:26'], extra_defs=['-DWASM_THREADS_PTHREADS']))
    return jobs, aux
