"""C09 - output options and worker scheduling never change what the program does."""
import os, subprocess, hashlib, filecmp
from core import Job, REPO, H
from e2 import e2_job, translate
import families as F, wasmenc, wasmvalid
from wasmenc import *

LEVEL = 'translation_validation'
META = {
    'technique': 'translation validation under every option combination of a stated set: the real translator is run with -p / -f N / -t N / -m / -g / -r REF on a module family, all emitted files '
                 '(main, s*.c, d*.c) are linked as separate translation units against the generated header (a function emitted 0 or 2 times is a link error) and CBMC decides equivalence with the '
                 'reference for symbolic arguments; the static/dynamic classification (main.c) is a CBMC kernel over symbolic sorted hash lists. Auxiliary (concrete): byte-identical files across '
                 'repeated runs and thread counts; SHA-1 vectors at block boundaries',
    'functions_encoded': ['C emitted by w2c2 under the options (c.c: wasmCWriteModule*, wasmCWriteImplementationFile, wasmCImplementationWriterThread as executed by the real translator run)',
                          'main.c: wasmSplitStaticAndDynamicFunctions, wasmFunctionIDsCompareHashes'],
    'bounds': {'options': '{-p} x {-f 0,1,2,#f,#f+1} x {-t 1,2,5} x {-m} x {-g without/with name section} x {-d arrays, gnu-ld} x {-r: same module, one body changed, empty module} (pairwise-complete subset in quick tier)',
               'modules': '5 shapes (calls between functions, globals, memory+data, table+elements+start, imports, export names needing escapes)', 'split kernel': 'n, m <= 3 IDs, duplicates allowed'},
    'assumptions': ['translator build configurations other than the detected one (no pthreads, bundled getopt/libgen/strdup) are built and pushed through the same family in the thorough tier',
                    'sha1.c is trusted as a correct, collision-free hash: SAT cannot decide SHA-1 properties; its block handling is checked concretely against hashlib at lengths around 64-byte boundaries (auxiliary)'],
    'out_of_claim': ['all interleavings of producer and worker threads: the hand-off in wasmCWriteModuleImplementationFiles / wasmCImplementationWriterThread is exercised only through real runs with -t N '
                     '(a sequentialised-scheduler harness like C17 needs wasmCWriteImplementationFile stubbed, which cannot be done add-only for a static function without pulling the whole emitter in)',
                     'sectcreate1/2 data modes (Mach-O only); for -d gnu-ld the linker-provided symbol _binary_datasegments_start is supplied from the emitted datasegments file', 'thread counts above 5'],
}


def option_family(ctx):
    mods = []
    # shape 1: three functions calling each other + global + memory/data
    f0 = Func([I32], [I32], [], [('local.get', 0), ('i32.const', 3), ('i32.add',), ('call', 1)])
    f1 = Func([I32], [I32], [], [('local.get', 0), ('global.get', 0), ('i32.xor',), ('call', 2)])
    f2 = Func([I32], [I32], [I32], [('local.get', 0), ('i32.const', 8), ('i32.load', 2, 0), ('i32.sub',)])
    m1 = Module(funcs=[f0, f1, f2], mems=[(1, 1)], globals=[Global(I32, True, ('i32.const', 77))], datas=[Data(('i32.const', 8), b'\x10\x20\x30\x40')],
                exports=[('run', 'func', 0), ('odd-name!', 'func', 1), ('m', 'memory', 0)], names={0: 'first', 1: 'second_fn', 2: 'third'})
    mods.append(('chain', m1, [{'call': 'run'}, {'call': 'odd-name!'}]))
    # shape 2: import + table + elements + start
    h = Import('env', 'note', 'func', ([I32], []))
    s0 = Func([], [], [], [('i32.const', 5), ('call', 0)])
    a = Func([I32], [I32], [], [('local.get', 0), ('i32.const', 1), ('i32.shl',)])
    b = Func([I32], [I32], [], [('local.get', 0), ('i32.const', 9), ('i32.add',)])
    ci = Func([I32, I32], [I32], [], [('local.get', 1), ('local.get', 0), ('call_indirect', ([I32], [I32]), 0)])
    m2 = Module(imports=[h], funcs=[s0, a, b, ci], tables=[(4, 4)], elems=[Elem(('i32.const', 1), [2, 3])], start=1, exports=[('ci', 'func', 4)], names={1: 'start', 4: 'dispatch'})
    mods.append(('table', m2, [{'call': 'ci'}]))
    # shape 4: data-segment embedding: passive / active / passive segments + memory.init (exercised under -d arrays and -d gnu-ld)
    ld = Func([I32], [I64], [], [('local.get', 0), ('i64.load', 0, 0)])
    ini = Func([I32, I32, I32], [], [], [('local.get', 0), ('local.get', 1), ('local.get', 2), ('memory.init', 2)])
    ini0 = Func([I32, I32, I32], [], [], [('local.get', 0), ('local.get', 1), ('local.get', 2), ('memory.init', 0)])
    m4 = Module(funcs=[ld, ini, ini0], mems=[(1, 1)], datas=[Data(None, b'AAAA', passive=True), Data(('i32.const', 16), b'BBBB'), Data(None, b'CCCCC', passive=True), Data(('i32.const', 40), b'DD')],
                datacount=True, exports=[('ld', 'func', 0), ('init', 'func', 1), ('init0', 'func', 2)])
    mods.append(('datamodes', m4, [{'call': 'init', 'args': {2: 3}}, {'call': 'init0', 'args': {2: 2}}, {'call': 'ld'}]))
    # shape 3: control flow body
    mods.append(('cf', F.control_flow(0, 7), [{'call': 'f', 'assume': {0: '$ <= 3'}}]))
    return mods


def opt_sets(nfuncs, quick):
    fs = [0, 1, 2, nfuncs, nfuncs + 1]
    ts = [1, 2, 5]
    out = []
    if quick:
        out = [[], ['-p'], ['-d', 'gnu-ld'], ['-d', 'gnu-ld', '-p', '-f', '1', '-t', '2'], ['-f', '1', '-t', '1'], ['-f', '2', '-t', '2'], ['-f', str(nfuncs + 1), '-t', '5'], ['-m'], ['-g'], ['-p', '-m', '-g', '-f', '1', '-t', '2'], ['-g', '-f', '2', '-t', '5']]
    else:
        for p in ([], ['-p']):
            for f in fs:
                for t in ts:
                    for mm in ([], ['-m']):
                        for g in ([], ['-g']):
                            out.append(p + ['-f', str(f), '-t', str(t)] + mm + g)
        out += [['-d', 'gnu-ld'], ['-d', 'gnu-ld', '-p', '-f', '1', '-t', '2'], ['-d', 'gnu-ld', '-m']]
    return out


def aux_identical(ctx, mods):
    """auxiliary, concrete: repeated runs and different thread counts produce byte-identical files"""
    bad = []
    n = 0
    for (name, m, script) in mods:
        wb = wasmenc.encode(m)
        base = None
        for run, t in enumerate((1, 1, 3, 8)):
            d = os.path.join(ctx.dir('ident'), '%s_%d' % (name, run))
            files, err = translate(ctx, d, wb, ['-f', '1', '-t', str(t)])
            n += 1
            if files is None:
                bad.append('%s: %s' % (name, err)); break
            snap = {f: open(os.path.join(d, f), 'rb').read() for f in sorted(os.listdir(d)) if f != 'm.wasm'}
            if base is None:
                base = snap
            elif snap != base:
                bad.append('%s: files differ between runs (-t %d)' % (name, t))
    return bad, n


def aux_sha1(ctx):
    d = ctx.dir('sha1')
    src = os.path.join(d, 't.c')
    open(src, 'w').write('#include <stdio.h>\n#include <stdlib.h>\n#include "sha1.h"\nvoid trap(Trap t){(void)t;abort();}\nint main(int c,char**v){unsigned n=(unsigned)atoi(v[1]),k;unsigned char*b=malloc(n+1),h[20];for(k=0;k<n;k++)b[k]=(unsigned char)(k*7+n);SHA1(b,n,h);for(k=0;k<20;k++)printf("%02x",h[k]);printf("\\n");return 0;}\n')
    exe = os.path.join(d, 't')
    r = subprocess.run(['gcc', '-O1', '-w', '-I', os.path.join(REPO, 'w2c2'), src, os.path.join(REPO, 'w2c2', 'sha1.c'), '-o', exe], capture_output=True, text=True)
    if r.returncode != 0:
        return ['sha1 build failed: ' + r.stderr[-200:]], 0
    bad = []
    lens = [0, 1, 55, 56, 57, 63, 64, 65, 119, 120, 127, 128, 129, 191, 192, 193, 256, 320]
    for n in lens:
        data = bytes(((k * 7 + n) & 0xFF) for k in range(n))
        out = subprocess.run([exe, str(n)], capture_output=True, text=True).stdout.strip()
        if out != hashlib.sha1(data).hexdigest():
            bad.append('SHA1 of %d bytes differs from the specification (function hashes decide static/dynamic classification)' % n)
    return bad, len(lens)


def compile_gate(job):
    """every emitted file must compile on its own against the generated header (concrete gcc -fsyntax-only)"""
    incs = []
    for i in job.incs:
        incs += ['-I', i]
    for s in job.sources:
        if os.path.basename(s) in ('h.c', 'dsblob.c'):
            continue
        r = subprocess.run(['gcc', '-fsyntax-only', '-w'] + incs + job.defs + [s], capture_output=True, text=True, env=dict(os.environ, LC_ALL='C'))
        if r.returncode != 0:
            import re
            m = re.search(r'error: ([^\n]*)', r.stderr)
            return '%s does not compile on its own against the generated header: %s' % (os.path.basename(s), m.group(1) if m else r.stderr[-200:])
    return None


def gated(jobs, j):
    if isinstance(j, dict):
        jobs.append(j)
        return
    err = compile_gate(j)
    if err:
        jobs.append({'pre_violation': True, 'name': 'compile_' + j.name, 'desc': 'options %s: emitted file %s' % (' '.join(j.sample.get('w2c2_options', [])), err),
                     'dir': os.path.dirname(j.sources[0]), 'group': j.group})
    else:
        jobs.append(j)


def make_jobs(ctx):
    jobs = []
    mods = option_family(ctx)
    for (name, m, script) in mods:
        wasmvalid.validate(m)
        nf = len(m.funcs)
        for oi, o in enumerate(opt_sets(nf, ctx.quick)):
            hk = {'max_host_calls': 12}
            gated(jobs, e2_job(ctx, '%s_opt%d' % (name, oi), m, script, opts=o, backends=['sat', 'kissat'], unwind=14 if name != 'cf' else 6, page=64, harness_kw=hk,
                               extra_flags=['--unwindset', 'streq.0:26'], group='%s_%s' % (name, ' '.join(o)), sample={'module': name, 'options': o}))
        # -r reference module: same module (all static), one body changed, empty module
        for ri, refm in enumerate(('same', 'changed', 'empty')):
            d = ctx.dir('ref_%s_%d' % (name, ri))
            if refm == 'same':
                rb = wasmenc.encode(m)
            elif refm == 'changed':
                import copy
                m2 = copy.deepcopy(m)
                m2.funcs[-1].body = list(m2.funcs[-1].body) + [('nop',)]
                rb = wasmenc.encode(m2)
            else:
                rb = wasmenc.encode(Module())
            os.makedirs(ctx.dir('e2_%s_ref%d' % (name, ri)), exist_ok=True)
            rp = os.path.join(ctx.dir('e2_%s_ref%d' % (name, ri)), 'ref.wasm')
            open(rp, 'wb').write(rb)
            gated(jobs, e2_job(ctx, '%s_ref%d' % (name, ri), m, script, opts=['-r', 'ref.wasm', '-f', '1', '-t', '2'], backends=['sat', 'kissat'], unwind=14 if name != 'cf' else 6, page=64,
                               harness_kw={'max_host_calls': 12}, extra_flags=['--unwindset', 'streq.0:26'], sample={'module': name, 'reference': refm}))
    # statement shapes x emission modes: pretty printing (-p), debug lines (-g) and module prefixes (-m) change how EVERY kind of
    # statement is written, so the targeted control-flow shapes of C03 (branches with carried values and extra operands, br_table
    # with values, dead ends, locals groups), comparison idioms and a few memory/call/constant programs are each translated in
    # the default mode, with -p, and with -g -m, and each translation is decided against the reference semantics
    shapes = []
    cfs = [{'call': 'f', 'assume': {0: '$ <= 3'}}]
    bm = F.branch_matrix()
    for i, (n, mm) in enumerate(bm):
        if not ctx.quick or i % 5 == ctx.seed % 5:     # stride coprime to the matrix's inner period (6): all (operands, br/br_if) combinations
            shapes.append((n, mm, cfs, dict(unwind=6, harness_kw={'max_host_calls': 8})))
    for k in (range(4) if ctx.quick else range(40)):
        shapes.append(('cf_%d' % k, F.control_flow(0, k), cfs, dict(unwind=6, harness_kw={'max_host_calls': 12})))
    for oi, op in enumerate(F.comparison_ops(True) + F.comparison_ops(False)):
        for fi, fo in enumerate(F.CMP_FOLLOWERS):
            if (oi + fi + ctx.seed) % (12 if ctx.quick else 2) == 0:
                shapes.append(('cmp_%s_%s' % (op.replace('.', '_'), fo), F.cmp_then(op, fo), [{'call': 'f'}], dict(unwind=6)))
    for fam, kw in ((F.memory_family, dict(unwind=14, page=64)), (F.calls_family, dict(unwind=8)), (F.const_family, dict(unwind=14, page=64)), (F.instantiation_family, dict(unwind=14, page=64))):
        lst = fam(ctx.seed, True)
        for i, (n, mm, sc, hk) in enumerate(lst):
            if 'shared' in n:
                continue
            if i % (9 if ctx.quick else 2) == ctx.seed % 2:
                shapes.append((n, mm, sc, dict(kw, harness_kw=hk)))
    for (n, mm, sc, kw) in shapes:
        wasmvalid.validate(mm)
        for oi, o in enumerate(([], ['-p'], ['-g', '-m'])):
            gated(jobs, e2_job(ctx, 'shape_%s_o%d' % (n, oi), mm, sc, opts=o, backends=['sat', 'kissat'], extra_flags=['--unwindset', 'streq.0:26'],
                               group='shape_%s' % n, sample={'program': n, 'options': o}, timeout=200 if ctx.quick else 900, **kw))
    # auxiliary, concrete: where did each function go under -r?  (the CBMC kernel of wasmSplitStaticAndDynamicFunctions - pointer walks over
    # arrays of 24-byte structs with memcmp - does not finish in 300 s / 50 GB on any back end; stated in DESIGN.md)
    import re
    for (name, m, script) in mods:
        nimp = len(m.imported('func'))
        if len(m.funcs) <= 1:
            continue   # -f 1 with a single function: everything goes into the main file
        for ri, refm in enumerate(('same', 'changed', 'empty')):
            d = ctx.dir('e2_%s_ref%d' % (name, ri))
            where = {}
            for f in sorted(os.listdir(d)):
                if re.match(r'^[sd]\d{10}\.c$', f):
                    for mm in re.finditer(r'^\w[\w\s\*]*?\b(f\d+)\(mInstance\*i', open(os.path.join(d, f)).read(), re.M):
                        where.setdefault(mm.group(1), []).append(f[0])
            for k in range(len(m.funcs)):
                fn = 'f%d' % (nimp + k)
                got = where.get(fn, [])
                want = {'same': 's', 'empty': 'd', 'changed': 'd' if k == len(m.funcs) - 1 else 's'}[refm]
                if got != [want]:
                    jobs.append({'pre_violation': True, 'name': 'classify_%s_%s_%s' % (name, refm, fn), 'dir': d, 'group': 'aux',
                                 'desc': 'function %s with reference "%s": emitted in %s, expected exactly one %s file (static only if the reference has a byte-identical body)' % (fn, refm, got, want)})
    bad1, n1 = aux_identical(ctx, mods)
    bad2, n2 = aux_sha1(ctx)
    for b in bad1 + bad2:
        jobs.append({'pre_violation': True, 'name': 'aux', 'desc': b, 'dir': ctx.dir('ident'), 'group': 'aux'})
    return jobs, {'auxiliary_identical_runs': n1, 'auxiliary_sha1_vectors': n2}
