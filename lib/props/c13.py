"""C13 - WASI descriptors: unique while open, invalid after close, host memory stays safe."""
from wasijobs import wasi_job, STUBS

LEVEL = 'model_checking'
META = {
    'technique': 'CBMC symbolic execution of bounded call histories on the real wasi.c descriptor table (real wasiInit + preopen, then open/close/use with symbolic '
                 'descriptor numbers and a symbolic choice of the descriptor-taking call); ghost set of live numbers; CBMC deallocated-object / double-free / NULL checks '
                 'are the oracle for "never reads or frees released host memory"',
    'functions_encoded': ['wasi.c: wasiFileDescriptorAdd/Get/Set/Close, wasiDirectorySet, path_open, fd_close, fd_read, fd_seek, fd_tell, fd_filestat_get, fd_fdstat_get, '
                          'fd_readdir, fd_prestat_get, fd_prestat_dir_name (both ABI name spaces where they differ)'],
    'bounds': {'history': 'preopen + open + close + one arbitrary call (10 kinds) on an arbitrary number 0..8; open/readdir/close/use; open/open/(close)/open',
               'descriptor numbers': '0..8', 'PATH_MAX': 'scaled to 16'},
    'assumptions': STUBS + ['allocation failure out of scope'],
    'out_of_claim': ['histories longer than 4 calls', 'concurrent use of the table'],
}

H = [('unique', ['end']), ('unique_close', ['end']), ('stdio', ['end']), ('prestat', ['end'])]
OPS = ['fd_close', 'fd_read', 'fd_seek', 'fd_tell', 'fd_filestat_get', 'fd_fdstat_get', 'fd_readdir', 'fd_prestat_get', 'fd_prestat_dir_name', 'path_open']


def make_jobs(ctx):
    jobs = [wasi_job('c13_descriptors.c', h, witnesses=w, timeout=400 if ctx.quick else 1200) for (h, w) in H]
    for k, op in enumerate(OPS):
        # one query per kind of descriptor-taking call (a single query over all ten kinds exhausts memory)
        jobs.append(wasi_job('c13_descriptors.c', 'use_after_close', witnesses=['end', 'dead descriptor'], defs=['-DOP=%d' % k],
                             name='c13_use_after_close_' + op, timeout=400 if ctx.quick else 1200, sample={'call': op}))
        jobs.append(wasi_job('c13_descriptors.c', 'dir_after_close', witnesses=['end'], defs=['-DOP=%d' % k],
                             name='c13_dir_after_close_' + op, timeout=400 if ctx.quick else 1200, sample={'call': op}))
    return jobs
