"""C13 - WASI descriptors: unique while open, invalid after close, host memory stays safe."""
from wasijobs import wasi_job, STUBS

LEVEL = 'model_checking'
META = {
    'technique': 'CBMC symbolic execution of bounded call histories on the real wasi.c descriptor table (real wasiInit + preopen, then open/close/use with symbolic '
                 'descriptor numbers and a symbolic choice of the descriptor-taking call); ghost set of live numbers; CBMC deallocated-object / double-free / NULL checks '
                 'are the oracle for "never reads or frees released host memory"; plus ONE-STEP checks from every reachable table shape (length x live-mask enumerated, built with the real '
                 'wasiFileDescriptorAdd): a path_open returns a number that is not live, designates the new file, and leaves every live slot untouched; fd_close invalidates exactly its slot',
    'functions_encoded': ['wasi.c: wasiFileDescriptorAdd/Get/Set/Close, wasiDirectorySet, path_open, fd_close, fd_read, fd_seek, fd_tell, fd_filestat_get, fd_fdstat_get, '
                          'fd_readdir, fd_prestat_get, fd_prestat_dir_name (both ABI name spaces where they differ)'],
    'bounds': {'one step': 'path_open / fd_close(y) from every table shape: length 4..8 and 11, every live/closed assignment of slots 4.. (quick: lengths 4,5,7); table built with the real wasiFileDescriptorAdd so that capacity follows the real growth policy', 'history': 'preopen + open + close + one arbitrary call (10 kinds) on an arbitrary number 0..8; open/readdir/close/use; open/open/(close)/open',
               'descriptor numbers': '0..8', 'PATH_MAX': 'scaled to 16'},
    'assumptions': STUBS + ['allocation failure out of scope'],
    'out_of_claim': ['histories longer than 4 calls', 'concurrent use of the table'],
}

H = [('unique', ['end']), ('unique_close', ['end']), ('stdio', ['end']), ('prestat', ['end'])]
OPS = ['fd_close', 'fd_read', 'fd_seek', 'fd_tell', 'fd_filestat_get', 'fd_fdstat_get', 'fd_readdir', 'fd_prestat_get', 'fd_prestat_dir_name', 'path_open']


def make_jobs(ctx):
    jobs = [wasi_job('c13_descriptors.c', h, witnesses=w, timeout=400 if ctx.quick else 1200) for (h, w) in H]
    for k, op in enumerate(OPS):
        # one query per kind of descriptor-taking call (a single query over all ten kinds exhausts memory)
        jobs.append(wasi_job('c13_descriptors.c', 'use_after_close', witnesses=['end', 'dead descriptor'], defs=['-DOP=%d' % k],
                             name='c13_use_after_close_' + op, timeout=400 if ctx.quick else 1200, sample={'call': op}))
        jobs.append(wasi_job('c13_descriptors.c', 'dir_after_close', witnesses=['end'], defs=['-DOP=%d' % k],
                             name='c13_dir_after_close_' + op, timeout=400 if ctx.quick else 1200, sample={'call': op}))
    # one step from every reachable table shape (length, which slots >= 4 are live); capacities follow the real growth
    # policy 1,2,4,7,11, so lengths 4, 7 and 11 are the exactly-full shapes where the next open must grow the table
    shapes = [(4, 0), (5, 0), (5, 1), (7, 0), (7, 7)] + [(7, mk) for mk in (1, 2, 3, 4, 5, 6)]
    if not ctx.quick:
        shapes += [(6, mk) for mk in range(4)] + [(8, mk) for mk in (0, 5, 10, 15)] + [(11, mk) for mk in (0, 1, 0x2A, 0x55, 0x7F, 0x40)]
    for (tl, mk) in shapes:
        jobs.append(wasi_job('c13_descriptors.c', 'step_open', witnesses=['end', 'opened'], defs=['-DTL=%d' % tl, '-DTMASK=%d' % mk], unwind=14,
                             name='c13_step_open_L%d_m%d' % (tl, mk), timeout=400 if ctx.quick else 1200, sample={'table length': tl, 'live mask of slots 4..': mk, 'call': 'path_open'}))
    for (tl, mk, ys) in ((7, 5, (3, 4, 5, 6, 7, 9)), (5, 1, (0, 4, 5)), (4, 0, (3, 4))):
        for y in ys:
            live = y < 4 or (y < tl and (mk >> (y - 4)) & 1)
            jobs.append(wasi_job('c13_descriptors.c', 'step_close', witnesses=['end', 'closed' if live else 'dead'], defs=['-DTL=%d' % tl, '-DTMASK=%d' % mk, '-DTY=%d' % y], unwind=14,
                                 name='c13_step_close_L%d_m%d_y%d' % (tl, mk, y), timeout=400 if ctx.quick else 1200, sample={'table length': tl, 'live mask of slots 4..': mk, 'call': 'fd_close(%d)' % y}))
    return jobs
