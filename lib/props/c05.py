"""C05 - linear memory instructions."""
import os
from core import Job, REPO, H
from e2 import e2_job
import families as F
import wasmvalid

LEVEL = 'translation_validation'
META = {
    'technique': 'translation validation: emitted C + real w2c2_base.h load/store/grow/copy/fill/init symbolically executed by CBMC against a '
                 'byte-by-byte little-endian reference memory; memory compared at an arbitrary (symbolic) index = all bytes',
    'functions_encoded': ['w2c2_base.h: DEFINE_LOAD/STORE instances (23), wasmMemoryAllocate, wasmMemoryGrow, wasmMemoryCopy, wasmMemoryFill, load_data/LOAD_DATA',
                          'C emitted by w2c2 c.c: wasmCWriteLoadExpr/StoreExpr/MemorySizeExpr/MemoryGrowExpr/MemoryInitExpr/MemoryCopyExpr/MemoryFillExpr, InitMemories'],
    'bounds': {'memory': '1 page initial, max 2-3 pages; page size scaled to 64 bytes through the W2C2_VERIF_PAGE_SIZE hook (address arithmetic stays 64-bit; wasmMemoryGrow size arithmetic with the real 65536 is a separate kernel query)', 'addresses/values': 'all in-bounds base addresses, all stored values, all alignments',
               'static offsets': '{0,1,13,...}', 'bulk length': '<= 6 bytes (reference stops beyond; assumed away)', 'call sequences': '<= 7 calls, state carried',
               'initial contents': 'data segment + 4..12 symbolic bytes at a symbolic address'},
    'assumptions': ['out-of-bounds accesses are outside the property (w2c2 does not trap them): reference stops, assumed away',
                    'realloc/calloc do not fail (--no-malloc-may-fail)'],
    'out_of_claim': ['bulk operations longer than 6 bytes', 'memories larger than 3 pages', 'grow beyond 3 pages is decided only by the kernel check of wasmMemoryGrow size arithmetic'],
}


def make_jobs(ctx):
    jobs = []
    src = os.path.join(H, 'kernels', 'c05_grow.c')
    incs = [os.path.join(REPO, 'w2c2')]
    jobs.append(Job('kernel_grow_size_arithmetic', [src], entry='harness_grow', incs=incs, unwind=4, backends=['cvc5', 'z3', 'kissat'],
                    witnesses=['end', 'refused', 'grown'], timeout=300, replay=dict(sources=[src], incs=incs, defs=['-Dharness=harness_grow']),
                    sample={'kernel': 'wasmMemoryGrow with the real 65536-byte page size', 'inputs': 'all initial sizes <= max <= 65536 pages, all deltas', 'stubs': 'realloc/memset record 64-bit sizes'}))
    for (name, m, script, hk) in F.memory_family(ctx.seed, ctx.quick):
        wasmvalid.validate(m)
        jobs.append(e2_job(ctx, name, m, script, backends=['sat', 'kissat', 'z3'], unwind=14, harness_kw=hk, page=64,
                           extra_flags=['--unwindset', 'streq.0:26'], timeout=200 if ctx.quick else 900,
                           extra_defs=['-DWASM_THREADS_PTHREADS'] if 'shared' in name else ()))
    return jobs
