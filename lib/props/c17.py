"""C17 - memory.atomic.wait / notify."""
import os
from core import Job, REPO, H
from e2 import e2_job
import families as F
import wasmvalid

LEVEL = 'model_checking'
META = {
    'technique': 'CBMC symbolic execution of the real futex/futex.c + list.c + map.c under a sequentialised scheduler: pthread mutex/condition primitives are supplied by the '
                 'harness, every condition wait is a yield point where a nondeterministically chosen set of not-yet-started agents runs; schedule choices, spurious wake-ups, '
                 'time-outs, addresses, cell contents, expected values and notify counts are solver variables; ghost counters state the wait/notify contract. Plus translation '
                 'validation of the emitted wait/notify calls (effective address = operand + static offset)',
    'functions_encoded': ['futex/futex.c: wasmMemoryAtomicWait, wasmMemoryAtomicNotify, waitFree', 'futex/list.c: listPrepend, listRemove (also as one-step kernels from arbitrary valid lists: head/middle/tail removal)', 'futex/map.c: mapInitialize, mapGet, mapInsert, mapRemove (also as a kernel: 3 symbolic keys colliding in 2 buckets)',
                          'w2c2_base.h: WASM_MUTEX_*/WASM_COND_* macros, wasmCondRelativeWait, i32/i64_atomic_load', 'C emitted by w2c2 c.c: wasmCWriteMemoryAtomicWaitExpr/NotifyExpr'],
    'bounds': {'agents': '2-3 per scenario: W+N, W(timed)+N, W+W+N, W+N+N, W(addr 0)+W(addr 16, same bucket)+N, W(timed)+W+N', 'schedules': 'all properly nested (LIFO) schedules: an agent may start inside any '
               'condition wait of another; start order both ways', 'spurious wake-ups': '<=1 per waiter', 'buckets': '4 via the W2C2_VERIF_FUTEX_BUCKET_COUNT hook (addresses 0 and 16 collide); one scenario with the real 1024',
               'unwind': 'recursion = number of waiters + 1; wait loops 3'},
    'assumptions': ['mutex = mutual exclusion, condition variable per POSIX (signal wakes a current waiter or is lost, wait may return spuriously, timedwait may time out at any time)',
                    'allocation failure out of scope', 'memory cells are not modified during a scenario'],
    'out_of_claim': ['non-nested schedules: a blocked agent resuming before an agent that started later has finished (needs coroutines; CBMC native threads abort on shared pointer writes)',
                     'C11 data-race freedom as such', 'more than 3 agents / more than 1 spurious wake-up per waiter'],
}

US = 'harness.0:34,harness.1:5,harness.2:5,harness.3:5,harness.4:5,harness.5:5,harness.6:5,harness.7:5,block.0:4,run_wait.0:4,cell.0:9,pthread_cond_signal.0:4,pthread_cond_destroy.0:4,blocked_on.0:4,' \
     'wasmMemoryAtomicWait.0:3,wasmMemoryAtomicWait.1:3,wasmMemoryAtomicNotify.0:4,mapGet.0:3,mapRemove.0:3'
SCEN = [(0, 2, 2, 'W+N', ['end', 'woken']), (1, 2, 2, 'W(timed)+N', ['end', 'woken', 'timed out']), (3, 3, 2, 'W+N+N', ['end', 'woken']),
        (4, 3, 3, 'W(addr0)+W(addr16 same bucket)+N', ['end', 'woken']), (2, 3, 3, 'W+W+N', ['end', 'woken']), (5, 3, 3, 'W(timed)+W+N', ['end', 'woken', 'timed out']),
        (6, 2, 3, 'W + (store;notify), every lock request is a yield point', ['end', 'woken']), (7, 3, 4, 'W+W + (store;notify), every lock request is a yield point', ['end', 'woken'])]


def futex_job(sc, na, rec, desc, wit, buckets=4, timeout=900):
    src = os.path.join(H, 'kernels', 'c17_futex.c')
    incs = [os.path.join(REPO, 'futex'), os.path.join(REPO, 'w2c2')]
    defs = ['-DSC=%d' % sc, '-DNA=%d' % na, '-DWASM_THREADS_PTHREADS', '-DW2C2_VERIF=1'] + (['-DW2C2_VERIF_FUTEX_BUCKET_COUNT=%d' % buckets] if buckets else [])
    return Job('futex_sc%d_%s' % (sc, 'b%d' % buckets if buckets else 'b1024'), [src], incs=incs, defs=defs, unwind=rec,
               flags=['--no-malloc-may-fail', '--object-bits', '12' if sc >= 6 else '10', '--unwindset', US], backends=['sat', 'kissat'], witnesses=wit, timeout=timeout,
               replay=dict(sources=[src], incs=incs, defs=defs, asan=True),
               sample={'scenario': desc, 'agents': na, 'buckets': buckets or 1024, 'schedules': 'all nested schedules, both start orders, <=1 spurious wake-up per waiter'})


def make_jobs(ctx):
    jobs = []
    scen = (SCEN[:5] + [SCEN[6]]) if ctx.quick else SCEN
    for (sc, na, rec, desc, wit) in scen:
        jobs.append(futex_job(sc, na, rec, desc, wit, timeout=300 if ctx.quick else 1200))
    jobs.append(futex_job(0, 2, 2, 'W+N with the unhooked 1024 buckets', ['end', 'woken'], buckets=0, timeout=300 if ctx.quick else 1200))
    src = os.path.join(H, 'kernels', 'c17_listmap.c')
    incs = [os.path.join(REPO, 'futex'), os.path.join(REPO, 'w2c2')]
    for h in ('list_remove', 'list_prepend', 'map'):
        jobs.append(Job('listmap_' + h, [src], entry='harness_' + h, incs=incs, unwind=6, flags=['--no-malloc-may-fail'], backends=['sat'], witnesses=['end'],
                        replay=dict(sources=[src], incs=incs, defs=['-Dharness=harness_' + h], asan=True), sample={'kernel': h, 'state': 'arbitrary valid list of <=3 nodes / 3 symbolic keys in 2 buckets'}))
    for (name, m, script, hk) in F.futex_family():
        wasmvalid.validate(m)
        jobs.append(e2_job(ctx, name, m, script, backends=['sat', 'kissat'], unwind=14, harness_kw=hk, page=64,
                           extra_flags=['--unwindset', 'streq.0:26'], extra_defs=['-DWASM_THREADS_PTHREADS']))
    return jobs
