"""C07 - every constant keeps its exact bit pattern through the generated C text."""
import os
from core import Job, REPO, H
from e2 import e2_job
import families as F
import wasmvalid

LEVEL = 'translation_validation'
META = {
    'technique': '(a) CBMC symbolic execution of the real wasmCWriteLiteral + stringbuilder.c over all 2^32/2^64 bit patterns with a contract model of sprintf, '
                 'asserting literal class and value; (b) translation validation of constant-returning modules: literal text printed by the real translator '
                 'is parsed by the CBMC C front end and compared bit-exactly with the module constant',
    'functions_encoded': ['c.c: wasmCWriteLiteral', 'stringbuilder.c (all append functions used)', 'instruction.c/leb128.h constant decoding via the real translator run',
                          'C emitted for T.const, global initialisers, data/element segment offsets'],
    'bounds': {'literal classification': 'all 2^32 f32 / 2^64 f64 / all i32 / i64 values (one query per type)',
               'end-to-end': 'class list (boundary integers, +-0, +-inf, subnormals, extremes, quiet/signalling NaNs with payload in low/high bits, either sign) + 6 seed-rotated random values per type'},
    'assumptions': ['sprintf is modelled by its contract for the conversions used (%i %u %lli %llu %08X %016llX: exact characters; %.9g/%.17g: value recorded, round-trip of 9/17 significant digits trusted (IEEE-754))',
                    "CBMC's C front end stands in for the host compiler's literal parser on the class list"],
    'out_of_claim': ['host compiler decimal literal parsing beyond the class list'],
}


def make_jobs(ctx):
    jobs = []
    src = os.path.join(H, 'kernels', 'c07_literal.c')
    if os.path.exists(src):
        for t in ('i32', 'i64', 'f32', 'f64'):
            jobs.append(Job('literal_%s' % t, [src], entry='harness_' + t, incs=[os.path.join(REPO, 'w2c2')],
                            defs=['-DHAS_PTHREAD=1', '-DHAS_UNISTD=1', '-DHAS_GETOPT=1', '-DHAS_LIBGEN=1', '-DHAS_STRDUP=1', '-DHAS_GLOB=1'],
                            backends=['sat', 'kissat'], unwind=40, flags=['--no-malloc-may-fail'], witnesses=['end'],
                            sample={'kernel': 'wasmCWriteLiteral', 'type': t, 'inputs': 'all bit patterns'}))
    for (name, m, script, hk) in F.const_family(ctx.seed, ctx.quick):
        wasmvalid.validate(m)
        jobs.append(e2_job(ctx, name, m, script, backends=['sat', 'kissat'], unwind=14, harness_kw=hk, page=64,
                           extra_flags=['--unwindset', 'streq.0:26']))
    return jobs
