"""C20 - the translator touches only its own output files."""
import os, re
from core import Job, REPO, H, BrokenMachinery

LEVEL = 'model_checking'
META = {
    'technique': 'CBMC symbolic execution of the real cleanImplementationFiles, changeToOutputDirectory (main.c), the path block of wasmCWriteModule and wasmCWriteImplementationFile (c.c) '
                 'with glob/remove/chdir/fopen replaced by recording stubs and dirname/basename given either the bundled compat.c implementation or a POSIX-contract model; '
                 'solver verdict over all directory contents (names), output paths and file indices',
    'functions_encoded': ['main.c: cleanImplementationFiles, changeToOutputDirectory', 'c.c: wasmCWriteModule path block (extracted text), wasmCWriteImplementationFile', 'compat.c: basename, dirname (bundled variant)'],
    'bounds': {'directory': '0..3 names of 2..14 arbitrary bytes ending in .c (glob contract)', 'output path': '1..5 characters over {/, ., a, b, c}, not ending in a separator', 'file index': 'all 2^32, both prefixes'},
    'assumptions': ['glob("*.c") returns only names ending in .c (its contract); remove/chdir/fopen may fail arbitrarily', 'sprintf contract model (h/sprintf_model.h)',
                    'strcpy is given its C contract: overlapping source and destination is undefined and asserted against'],
    'out_of_claim': ['concrete directory-tree snapshot comparison', 'Windows FindFirstFile branch', 'readFile opening the input only for reading is by inspection of file.c (fopen mode "rb"), checked structurally',
                     'the external data-segment mode file "datasegments" (name is a literal in c.c, checked structurally)'],
}
DEFS = ['-DHAS_PTHREAD=1', '-DHAS_UNISTD=1', '-DHAS_GETOPT=1', '-DHAS_LIBGEN=1', '-DHAS_STRDUP=1', '-DHAS_GLOB=1']


def extract_nameblock(d):
    src = open(os.path.join(REPO, 'w2c2', 'c.c')).read()
    m = re.search(r'wasmCWriteModule\(\s*const WasmModule\* module,.*?\)\s*\{(.*?)\n\s*MUST \(wasmCWriteModuleHeader\(', src, re.S)
    if not m:
        raise BrokenMachinery('cannot locate the path block of wasmCWriteModule in c.c')
    open(os.path.join(d, 'nameblock.inc'), 'w').write(m.group(1) + '\n')
    return m.group(1)


def structural(ctx):
    """literal file names / modes that are not reached by the harnesses"""
    bad = []
    f = open(os.path.join(REPO, 'w2c2', 'file.c')).read()
    for mm in re.finditer(r'fopen\(([^,]+),\s*"([^"]*)"\)', f):
        if 'w' in mm.group(2) or 'a' in mm.group(2) or '+' in mm.group(2):
            bad.append('file.c opens %s with mode %s' % (mm.group(1), mm.group(2)))
    c = open(os.path.join(REPO, 'w2c2', 'c.c')).read() + open(os.path.join(REPO, 'w2c2', 'main.c')).read()
    names = set()
    for mm in re.finditer(r'fopen\(\s*([^,]+),\s*"(w[b]?)"\s*\)', c):
        names.add(mm.group(1).strip())
    allowed = {'filename', 'outputName', 'headerName', '"datasegments"', 'options.outputPath', 'outputPath'}
    for n in names:
        if n not in allowed and not re.match(r'^[A-Za-z_]*[Nn]ame$', n):
            bad.append('unexpected file opened for writing: fopen(%s, "w")' % n)
    return bad, sorted(names)


def make_jobs(ctx):
    d = ctx.dir('c20')
    extract_nameblock(d)
    src = os.path.join(H, 'kernels', 'c20_files.c')
    incs = [os.path.join(REPO, 'w2c2'), d]
    jobs = []
    def job(h, defs=(), name=None, unwind=26, timeout=600):
        dd = DEFS + list(defs)
        return Job(name or 'c20_' + h, [src], entry='harness_' + h, incs=incs, defs=dd, unwind=unwind, flags=['--no-malloc-may-fail'], backends=['sat', 'kissat'],
                   witnesses=['end'], timeout=timeout, replay=dict(sources=[src] + [os.path.join(REPO, 'w2c2', f) for f in ('opcode.c', 'export.c', 'section.c', 'instruction.c', 'valuetype.c', 'array.c', 'reader.c', 'debug.c', 'file.c', 'sha1.c', 'compat.c')], incs=incs, defs=dd + ['-Dharness=harness_' + h], asan=True), sample={'harness': h, 'variant': list(defs)})
    jobs.append(job('clean'))
    jobs.append(job('implname'))
    for v, defs in (('posix_libgen', []), ('bundled_libgen', ['-DBUNDLED_LIBGEN'])):
        jobs.append(job('outdir', defs, 'c20_outdir_' + v))
        jobs.append(job('outnames', defs, 'c20_outnames_' + v))
    bad, names = structural(ctx)
    for b in bad:
        jobs.append({'pre_violation': True, 'name': 'structural', 'desc': b, 'dir': d, 'group': 'structural'})
    return jobs, {'structural_fopen_write_targets': names}
