"""C06 - instantiation builds the specified initial state, once, per instance."""
from e2 import e2_job
import families as F
import wasmvalid

LEVEL = 'translation_validation'
META = {
    'technique': 'translation validation of the whole emitted module (instance struct, InitImports/InitMemories/InitTables/InitGlobals, Instantiate, '
                 'export wrappers) executed symbolically by CBMC against spec instantiation of the same AST; solver verdict over resolver-provided '
                 'global values, imported memory contents, call arguments',
    'functions_encoded': ['C emitted by w2c2 c.c: wasmCWriteModuleInstanceDeclaration, wasmCWriteInitImports, wasmCWriteInitMemories (+LOAD_DATA), '
                          'wasmCWriteInitTables, wasmCWriteInitGlobals, wasmCWriteInstantiateFunction, wasmCWriteExports, data segment arrays',
                          'w2c2_base.h: wasmMemoryAllocate, wasmTableAllocate, load_data'],
    'bounds': {'modules': 'memory {none,defined,imported} x table {none,defined,imported} x start {no,yes} x instances {1,2} x 3 global/segment variants',
               'segments': '<=4 active data segments (const / imported-global offsets, overlapping, zero-length, flag 0 / flag 2) + passive; <=2 element segments',
               'calls': '3-5 exported calls interleaved between instances, symbolic arguments', 'page size': 'scaled to 64 bytes (hook)'},
    'assumptions': ['segment offsets (imported global) are assumed in bounds (spec: instantiation traps otherwise)', 'allocation failure out of scope'],
    'out_of_claim': ['data-segment modes other than arrays (C09)', 'shared memories with children (C15)', 'modules with more than one memory/table'],
}


def make_jobs(ctx):
    jobs = []
    for (name, m, script, hk) in F.instantiation_family(ctx.seed, ctx.quick):
        wasmvalid.validate(m)
        jobs.append(e2_job(ctx, name, m, script, backends=['sat', 'kissat'], unwind=14, harness_kw=hk, page=64,
                           extra_flags=['--unwindset', 'streq.0:26'], timeout=200 if ctx.quick else 900))
    return jobs
