"""C14 - WASI path operations act on the resolved path; directory listings are complete."""
from wasijobs import wasi_job, STUBS

LEVEL = 'model_checking'
META = {
    'technique': 'CBMC symbolic execution of the real resolvePath, path_* entry points and fd_readdir against nondeterministic POSIX stubs and a model directory; '
                 'oracle = specification join of directory and guest path, dirent layout, cookie protocol; CBMC bounds checks decide "never writes past its buffers"; '
                 'solver verdict over all path bytes/lengths, buffer sizes, cookies, entry names/types and stub answers',
    'functions_encoded': ['wasi.c: resolvePath, path_create_directory, path_remove_directory, path_unlink_file, path_filestat_get, path_readlink, path_rename, path_symlink, '
                          'fd_readdir (wasiFDReaddir incl. lstat fallback), wasiErrno'],
    'bounds': {'PATH_MAX': 'scaled to 16 (all buffer arithmetic is written in terms of the macro)', 'directory path': '1..15 bytes symbolic (resolvePath), 1..5/7 bytes for entry points',
               'guest path': '0..2*PATH_MAX bytes (resolvePath), 0..PATH_MAX+2 for entry points, not NUL-terminated in guest memory', 'directory': '0..3 entries, names 1..3 bytes, any d_type/inode',
               'readdir buffers': 'all sizes up to 96', 'calls': '1-2 per history'},
    'assumptions': STUBS + ['guest paths contain no NUL byte', 'the implementation may reject joined paths within 2 bytes of the limit (conservative margin, tolerated)',
                            'telldir/seekdir cookies are entry indices in the model directory'],
    'out_of_claim': ['real directory semantics of telldir cookies', 'names longer than 3 bytes', 'listings of more than 3 entries', 'sequences of more than 2 readdir calls'],
}

POPS = ['path_create_directory', 'path_remove_directory', 'path_unlink_file', 'path_filestat_get', 'path_readlink']


def make_jobs(ctx):
    t = 900 if ctx.quick else 2400
    us = ['harness_resolve.0:18', 'harness_resolve.1:18', 'harness_resolve.2:18', 'harness_resolve.3:18', 'expect_join.0:18', 'expect_join.1:18', 'expect_join.2:18',
          'harness_pathop.0:20', 'harness_rename.0:20', 'harness_symlink.0:20', 'harness_symlink.1:18', 'setup_listing.0:5', 'setup_listing.1:6']
    jobs = [wasi_job('c14_paths.c', 'resolve', witnesses=['end', 'empty', 'absolute ok', 'relative ok'], unwind=34, unwindset=us, timeout=t)]
    for k, p in enumerate(POPS):
        jobs.append(wasi_job('c14_paths.c', 'pathop', witnesses=['end', 'rejected', 'performed'], defs=['-DPOP=%d' % k], name='c14_pathop_' + p,
                             unwind=20, unwindset=us, timeout=t, sample={'call': p}))
    jobs.append(wasi_job('c14_paths.c', 'rename', witnesses=['end', 'rejected', 'performed'], unwind=20, unwindset=us, timeout=t))
    jobs.append(wasi_job('c14_paths.c', 'symlink', witnesses=['end', 'rejected', 'performed'], unwind=20, unwindset=us, timeout=t))
    usr = us + ['wasiFDReaddir.0:5', 'setup_dir.0:18', 'strcat.0:20', 'strcpy.0:20', 'strlen.0:20']
    # the model directory size is fixed per query (0..3 entries); names have 1,2,3 bytes
    for dn in ((3,) if ctx.quick else (0, 1, 2, 3)):
        jobs.append(wasi_job('c14_paths.c', 'readdir_all', witnesses=['end'], defs=['-DDN=%d' % dn], name='c14_readdir_all_n%d' % dn, unwind=12, unwindset=usr, timeout=t, backends=['sat'], sample={'entries': dn}))
    for dn in ((2,) if ctx.quick else (2, 3)):
        jobs.append(wasi_job('c14_paths.c', 'readdir_resume', witnesses=['end'], defs=['-DDN=%d' % dn], name='c14_readdir_resume_n%d' % dn, unwind=12, unwindset=usr, timeout=t, backends=['sat'], sample={'entries': dn}))
    jobs.append(wasi_job('c14_paths.c', 'readdir_truncated', witnesses=['end', 'header written'], defs=['-DDN=2'], unwind=12, unwindset=usr, timeout=t, backends=['sat']))
    jobs.append(wasi_job('c14_paths.c', 'readdir_lstat', witnesses=['end', 'lstat used'], defs=['-DDN=1'], unwind=12, unwindset=usr, timeout=t, backends=['sat']))
    return jobs
