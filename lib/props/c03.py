"""C03 - structured control flow, operand stack, locals."""
from e2 import e2_job
import families as F
import wasmvalid

LEVEL = 'translation_validation'
META = {
    'technique': 'translation validation: C emitted by the real translator for generated structured programs is symbolically executed by CBMC '
                 'next to an independent stack-machine rendering of the same AST; solver verdict over all runtime values steering the branches',
    'functions_encoded': ['C emitted by w2c2 c.c: wasmCWriteBlockExpr/LoopExpr/IfExpr/BranchExpr/BranchIfExpr/BranchTableExpr/SelectExpr/'
                          'LocalGet/LocalAssignment/FunctionReturn, labelstack.h, typestack.h, locals.h as exercised by the translator run'],
    'bounds': {'nesting depth': '<=3', 'loop iterations': 'fuel parameter assumed <=3 (unwind 70 with unwinding assertions)',
               'programs': 'targeted branch matrix (type x depth x label x extra operands x br/br_if), br_table sizes 0..3, locals variants, + seeded random family',
               'values': 'all parameter values / host-import return values'},
    'assumptions': ['host import h(i32)->i32 returns arbitrary values; its call trace (callee, args, instance) is compared',
                    'allocation failure out of scope'],
    'out_of_claim': ['bodies deeper/larger than the family', 'multi-value blocks (unsupported by w2c2)'],
}


def make_jobs(ctx):
    jobs = []
    script = [{'call': 'f', 'assume': {0: '$ <= 3'}}]
    bm = F.branch_matrix()
    if ctx.quick:
        # every 5th br_/brtable_val_ shape, rotating with the seed (stride coprime to the matrix's inner period of 6, so that every
        # (extra operands, br/br_if) combination is present for every seed) + all other shapes
        sel = [x for i, x in enumerate(bm) if not (x[0].startswith('br_') or x[0].startswith('brtable_val_')) or i % 5 == (ctx.seed % 5) or i % 7 == (ctx.seed % 7)]
    else:
        sel = bm
    for name, m in sel:
        wasmvalid.validate(m)
        jobs.append(e2_job(ctx, name, m, script, backends=['sat', 'kissat'], harness_kw={'max_host_calls': 8}, unwind=6, extra_flags=['--unwindset', 'streq.0:26']))
    n = 40 if ctx.quick else 300
    for k in range(n):
        seed = 0 if k < n * 3 // 4 else ctx.seed + 1
        m = F.control_flow(seed, k)
        jobs.append(e2_job(ctx, 'cf_%d_%d' % (seed, k), m, script, backends=['sat', 'kissat'], unwind=6,
                           extra_flags=['--unwindset', 'streq.0:26'], harness_kw={'max_host_calls': 12}))
    return jobs
