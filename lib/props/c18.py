"""C18 - growing a shared memory from several threads is linearizable."""
import os
from core import Job, REPO, H

LEVEL = 'model_checking'
META = {
    'technique': 'CBMC symbolic execution of the real wasmMemoryGrow (w2c2_base.h) on a shared memory under a sequentialised scheduler: the mutex request is the yield point at which '
                 'any subset of the other agents (growers and a memory.size reader) runs to completion; deltas, initial size, maximum and schedule are solver variables',
    'functions_encoded': ['w2c2_base.h: wasmMemoryGrow (shared path), WASM_MUTEX_LOCK/UNLOCK macros; memory.size modelled as the plain read of .pages that c.c emits'],
    'bounds': {'agents': '2 and 3 growers + 1 size reader', 'initial pages': '0..4', 'maximum': '<=8', 'deltas': 'all 2^32', 'page size': 'scaled to 16 bytes (hook)',
               'schedules': 'every agent may run, whole, at any other agent\'s lock request, in both index orders'},
    'assumptions': ['mutex gives mutual exclusion', 'the unlocked prefix of wasmMemoryGrow contains no shared writes, so preempting inside it is equivalent to preempting at the lock request'],
    'out_of_claim': ['C11 data-race freedom as such (e.g. the unlocked plain read that memory.size compiles to): CBMC race instrumentation is unusable on this code (shared pointer writes)',
                     'more than 3 concurrent growers', 'concurrent loads/stores of data while growing (shared memories are never reallocated)'],
}


def make_jobs(ctx):
    src = os.path.join(H, 'kernels', 'c18_grow.c')
    incs = [os.path.join(REPO, 'w2c2')]
    jobs = []
    for na, wit in ((2, ['end', 'both grows succeeded', 'both failed']), (3, ['end', 'three grows succeeded'])):
        defs = ['-DNA=%d' % na, '-DWASM_THREADS_PTHREADS', '-DW2C2_VERIF=1', '-DW2C2_VERIF_PAGE_SIZE=16']
        jobs.append(Job('grow_%d_agents' % na, [src], incs=incs, defs=defs, unwind=4, flags=['--no-malloc-may-fail'], backends=['sat', 'kissat'],
                        witnesses=wit, timeout=600, replay=dict(sources=[src], incs=incs, defs=defs, asan=True),
                        sample={'agents': '%d growers + size reader' % na, 'schedules': 'all nested'}))
    return jobs
