"""shared job builder for the E4 (WASI against nondeterministic POSIX stubs) harnesses"""
import os
from core import Job, REPO, H

WASI_DEFS = ['-DHAS_UNISTD=1', '-DHAS_SYSUIO=1', '-DHAS_SYSTIME=1', '-DHAS_SYSRESOURCE=1', '-DHAS_STRNDUP=1', '-DHAS_FCNTL=1', '-DHAS_LSTAT=1',
             '-DHAS_GETENTROPY=1', '-DHAS_TIMESPEC=1', '-DWASM_THREADS_PTHREADS', '-DW2C2_VERIF=1']
STUBS = ['open close read readv writev lseek fstat stat lstat opendir readdir closedir seekdir telldir mkdir rmdir unlink rename symlink readlink '
         'clock_gettime clock_getres getentropy exit fcntl isatty fsync fdatasync pthread_create strndup: nondeterministic contract stubs (h/wasi_env.h)']


def wasi_job(src, entry, witnesses=('end',), unwind=12, unwindset=(), defs=(), backends=('sat', 'kissat'), timeout=None, sample=None, name=None, flags=()):
    path = os.path.join(H, 'kernels', src)
    incs = [os.path.join(REPO, 'wasi'), os.path.join(REPO, 'w2c2')]
    us = ['guest_init.0:130', 'vh_strndup.0:42', 'vh_strndup.1:42', 'capture.0:42'] + list(unwindset)
    d = WASI_DEFS + list(defs)
    return Job(name or ('%s_%s' % (src.split('.')[0], entry)), [path], entry='harness_' + entry, incs=incs, defs=d,
               flags=['--no-malloc-may-fail', '--object-bits', '10', '--unwindset', ','.join(us)] + list(flags),
               backends=list(backends), unwind=unwind, witnesses=list(witnesses), timeout=timeout,
               replay=dict(sources=[path], incs=incs, defs=d + ['-Dharness=harness_' + entry], asan=True),
               sample=dict(sample or {}, harness=entry, unit='wasi/wasi.c'))
