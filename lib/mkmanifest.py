"""Regenerates /verif/MANIFEST.json from the table below (keeps the file valid at all times)."""
import json, os, importlib, sys
HERE = os.path.dirname(os.path.abspath(__file__))
sys.path.insert(0, HERE); sys.path.insert(0, os.path.join(HERE, 'props'))
VERIF = os.path.dirname(HERE)

TITLES = {}
for l in open(os.path.join(VERIF, 'properties.jsonl')):
    d = json.loads(l); TITLES[d['id']] = d['title']

NOTES = {}
checks = []
na = []
for pid in sorted(TITLES):
    path = os.path.join(HERE, 'props', pid.lower() + '.py')
    if not os.path.exists(path):
        na.append({'property_id': pid, 'reason': 'check not built yet in this session (design in DESIGN.md section 3); no claim is made'})
        continue
    mod = importlib.import_module(pid.lower())
    if getattr(mod, 'NOT_APPLICABLE', None):
        na.append({'property_id': pid, 'reason': mod.NOT_APPLICABLE}); continue
    meta = mod.META
    checks.append({
        'property_id': pid,
        'quick_cmd': 'bin/check %s quick' % pid,
        'thorough_cmd': 'bin/check %s thorough' % pid,
        'evidence_file': 'evidence/%s.json' % pid,
        'replay_cmd_template': 'sh {path}/run.sh',
        'engine': 'cbmc-6.11 + SAT/SMT portfolio',
        'level_claimed': {'category': mod.LEVEL, 'text': meta.get('level_text', meta['technique']), 'design_ref': 'DESIGN.md section 3 ' + pid},
        'level_note': '; '.join(meta.get('assumptions', [])) + ' | outside the claim: ' + '; '.join(meta.get('out_of_claim', [])),
        'technique': meta['technique'],
    })
man = {
    'version': 1,
    'setup_cmd': 'sh bin/setup',
    'hooks': {'guard': 'W2C2_VERIF', 'enable': 'checks compile /repo sources with -DW2C2_VERIF=1 (cbmc and native scratch builds); the normal build never defines it',
              'baseline_off_cmd': 'sh bin/baseline_off', 'source_commits': ['78a4416'], 'add_only': True},
    'engines': [{'name': 'cbmc-portfolio', 'path': 'lib/core.py', 'serves_properties': [c['property_id'] for c in checks],
                 'kind_free_text': 'CBMC 6.11 bounded symbolic execution of real C sources and of C emitted by the real translator; back ends MiniSat/CaDiCaL, kissat, z3, cvc5 run as a portfolio; reachability witnesses; native replay of counterexamples'}],
    'checks': checks,
    'not_applicable': na,
    'notes': 'Exit codes of bin/check: 0 = held on everything explored; 1 = VIOLATION (line printed); 2 = inconclusive (solver timeout/vacuity/unconfirmed counterexample) - never reported as success.',
}
json.dump(man, open(os.path.join(VERIF, 'MANIFEST.json'), 'w'), indent=1)
print('checks:', [c['property_id'] for c in checks], 'na:', [n['property_id'] for n in na])
