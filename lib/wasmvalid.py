"""wasmvalid.py - spec validation (typing) of a module AST, so that a generator bug in OUR machinery
is reported as broken machinery and never as a violation of the code under test."""
from wasmenc import *
from refgen import SIG, mem_info, atomic_info


class Invalid(Exception):
    pass


class _F:
    def __init__(self, m, f):
        self.m, self.f = m, f
        self.locals = list(f.params) + list(f.locals)
        self.stack = []
        self.ctrl = []

    def push(self, t):
        self.stack.append(t)

    def pop(self, expect=None):
        c = self.ctrl[-1]
        if len(self.stack) == c['height']:
            if c['unreachable']:
                return expect
            raise Invalid('stack underflow')
        t = self.stack.pop()
        if expect is not None and t is not None and t != expect:
            raise Invalid('type mismatch: expected %s got %s' % (expect, t))
        return t if t is not None else expect

    def push_ctrl(self, kind, start, end):
        self.ctrl.append(dict(kind=kind, start=start, end=end, height=len(self.stack), unreachable=False))

    def pop_ctrl(self):
        c = self.ctrl[-1]
        for t in reversed(c['end']):
            self.pop(t)
        if len(self.stack) != c['height']:
            raise Invalid('values left on stack at end of block')
        self.ctrl.pop()
        return c

    def unreachable(self):
        c = self.ctrl[-1]
        del self.stack[c['height']:]
        c['unreachable'] = True

    def label_types(self, k):
        if k >= len(self.ctrl):
            raise Invalid('bad label')
        c = self.ctrl[-1 - k]
        return c['start'] if c['kind'] == 'loop' else c['end']

    def seq(self, instrs):
        for ins in instrs:
            self.ins(ins)

    def ins(self, ins):
        op = ins[0]
        m = self.m
        if op == 'nop':
            return
        if op == 'unreachable':
            return self.unreachable()
        if op in ('block', 'loop'):
            r = [ins[1]] if ins[1] else []
            self.push_ctrl(op, [], r)
            self.seq(ins[2])
            self.pop_ctrl()
            for t in r:
                self.push(t)
            return
        if op == 'if':
            r = [ins[1]] if ins[1] else []
            self.pop(I32)
            self.push_ctrl('if', [], r)
            self.seq(ins[2])
            self.pop_ctrl()
            if len(ins) > 3 and ins[3] is not None:
                self.push_ctrl('else', [], r)
                self.seq(ins[3])
                self.pop_ctrl()
            elif r:
                raise Invalid('if with result needs else')
            for t in r:
                self.push(t)
            return
        if op == 'br':
            for t in reversed(self.label_types(ins[1])):
                self.pop(t)
            return self.unreachable()
        if op == 'br_if':
            self.pop(I32)
            lt = self.label_types(ins[1])
            for t in reversed(lt):
                self.pop(t)
            for t in lt:
                self.push(t)
            return
        if op == 'br_table':
            self.pop(I32)
            dt = self.label_types(ins[2])
            for l in ins[1]:
                if self.label_types(l) != dt:
                    raise Invalid('br_table label types differ')
            for t in reversed(dt):
                self.pop(t)
            return self.unreachable()
        if op == 'return':
            for t in reversed(self.f.results):
                self.pop(t)
            return self.unreachable()
        if op == 'drop':
            self.pop()
            return
        if op == 'select':
            self.pop(I32)
            t1 = self.pop()
            t2 = self.pop(t1)
            self.push(t1 or t2)
            return
        if op in ('local.get', 'local.set', 'local.tee'):
            if ins[1] >= len(self.locals):
                raise Invalid('bad local')
            t = self.locals[ins[1]]
            if op == 'local.get':
                self.push(t)
            elif op == 'local.set':
                self.pop(t)
            else:
                self.pop(t)
                self.push(t)
            return
        if op == 'global.get':
            self.push(m.global_type(ins[1])[0])
            return
        if op == 'global.set':
            t, mut = m.global_type(ins[1])
            if not mut:
                raise Invalid('global.set of immutable')
            self.pop(t)
            return
        if op.endswith('.const'):
            self.push(op[:3])
            return
        if op == 'call':
            ps, rs = m.func_sig(ins[1])
            for t in reversed(ps):
                self.pop(t)
            for t in rs:
                self.push(t)
            return
        if op == 'call_indirect':
            if not (m.tables or m.imported('table')):
                raise Invalid('call_indirect without table')
            self.pop(I32)
            for t in reversed(ins[1][0]):
                self.pop(t)
            for t in ins[1][1]:
                self.push(t)
            return
        hasmem = bool(m.mems or m.imported('memory'))
        if op in LOADS or op in STORES:
            if not hasmem:
                raise Invalid('no memory')
            vt, width, signed, is_store = mem_info(op)
            if (1 << ins[1]) > width:
                raise Invalid('alignment larger than natural')
            if is_store:
                self.pop(vt)
                self.pop(I32)
            else:
                self.pop(I32)
                self.push(vt)
            return
        if op in ('memory.size',):
            self.push(I32)
            return
        if op == 'memory.grow':
            self.pop(I32)
            self.push(I32)
            return
        if op in ('memory.fill', 'memory.copy', 'memory.init'):
            if op == 'memory.init' and ins[1] >= len(m.datas):
                raise Invalid('bad data index')
            self.pop(I32); self.pop(I32); self.pop(I32)
            return
        if op in ('data.drop', 'atomic.fence'):
            return
        if op in ATOMIC_LOADS + ATOMIC_STORES + ATOMIC_RMW:
            kind, vt, width, rop = atomic_info(op)
            if (1 << ins[1]) != width:
                raise Invalid('atomic alignment must be natural')
            if kind == 'load':
                self.pop(I32); self.push(vt)
            elif kind == 'store':
                self.pop(vt); self.pop(I32)
            elif kind == 'rmw':
                self.pop(vt); self.pop(I32); self.push(vt)
            else:
                self.pop(vt); self.pop(vt); self.pop(I32); self.push(vt)
            return
        if op == 'memory.atomic.notify':
            self.pop(I32); self.pop(I32); self.push(I32); return
        if op == 'memory.atomic.wait32':
            self.pop(I64); self.pop(I32); self.pop(I32); self.push(I32); return
        if op == 'memory.atomic.wait64':
            self.pop(I64); self.pop(I64); self.pop(I32); self.push(I32); return
        if op in SIG:
            ps, r = SIG[op]
            for t in reversed(ps):
                self.pop(t)
            self.push(r)
            return
        raise Invalid('unknown instruction %r' % (op,))


def validate(m):
    nimpf = len(m.imported('func'))
    nf = nimpf + len(m.funcs)
    for k, f in enumerate(m.funcs):
        v = _F(m, f)
        v.push_ctrl('func', [], list(f.results))
        try:
            v.seq(f.body)
            v.pop_ctrl()
        except Invalid as e:
            raise Invalid('function %d: %s' % (k + nimpf, e))
    for (n, kd, ix) in m.exports:
        if kd == 'func' and ix >= nf:
            raise Invalid('bad export index')
    if m.start is not None and m.func_sig(m.start) != ((), ()):
        raise Invalid('start function must be [] -> []')
    for e in m.elems:
        for fi in e.funcs:
            if fi >= nf:
                raise Invalid('bad elem function index')
    return True
