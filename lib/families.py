"""families.py - generated program families (module ASTs) shared by the E2 checks."""
import random, zlib
from wasmenc import *
from refgen import SIG, TRAPPING

INT_OPS = sorted(n for n in SIG if n[0] == 'i' and all(t[0] == 'i' for t in SIG[n][0]) and (SIG[n][1] or 'i')[0] == 'i')
FLOAT_OPS = sorted(n for n in SIG if n not in INT_OPS)


def single_op(op):
    ps, r = SIG[op]
    body = [('local.get', i) for i in range(len(ps))] + [(op,)]
    return Module(funcs=[Func(ps, [r], [], body)], exports=[('f', 'func', 0)])


CMP_FOLLOWERS = ('eqz', 'eqz2', 'brif', 'if', 'select', 'eqz_brif', 'eqz_if', 'set_eqz')


def comparison_ops(floats):
    """test / comparison instructions (result i32 from one or two equally typed operands)"""
    out = []
    for n in sorted(SIG):
        ps, r = SIG[n]
        if r != 'i32' or not ps or any(t != ps[0] for t in ps) or len(ps) > 2:
            continue
        suffix = n.split('.')[1]
        if suffix.split('_')[0] not in ('eq', 'ne', 'lt', 'gt', 'le', 'ge', 'eqz'):
            continue
        if (ps[0][0] == 'f') == floats:
            out.append(n)
    return out


def cmp_then(op, follower):
    """a comparison immediately followed by the instruction(s) a translator is most likely to fuse it with"""
    ps, r = SIG[op]
    n = len(ps)
    cmp = [('local.get', i) for i in range(n)] + [(op,)]
    if follower == 'eqz':
        body = cmp + [('i32.eqz',)]
    elif follower == 'eqz2':
        body = cmp + [('i32.eqz',), ('i32.eqz',)]
    elif follower == 'brif':
        body = [('block', I32, [('i32.const', 10)] + cmp + [('br_if', 0), ('drop',), ('i32.const', 20)])]
    elif follower == 'eqz_brif':
        body = [('block', I32, [('i32.const', 10)] + cmp + [('i32.eqz',), ('br_if', 0), ('drop',), ('i32.const', 20)])]
    elif follower == 'if':
        body = cmp + [('if', I32, [('i32.const', 1)], [('i32.const', 2)])]
    elif follower == 'eqz_if':
        body = cmp + [('i32.eqz',), ('if', I32, [('i32.const', 1)], [('i32.const', 2)])]
    elif follower == 'select':
        body = [('i32.const', 5), ('i32.const', 6)] + cmp + [('select',)]
    elif follower == 'set_eqz':
        body = cmp + [('local.tee', n), ('i32.eqz',), ('local.get', n), ('i32.const', 1), ('i32.shl',), ('i32.or',)]
    else:
        raise ValueError(follower)
    return Module(funcs=[Func(ps, [I32], [I32], body)], exports=[('f', 'func', 0)])


def _expr(rng, want, depth, params, ops):
    """random expression tree producing type `want`; leaves = params / constants"""
    if depth == 0 or rng.random() < 0.15:
        cands = [i for i, t in enumerate(params) if t == want]
        if cands and rng.random() < 0.8:
            return [('local.get', rng.choice(cands))]
        c = rng.choice([0, 1, 0xFFFFFFFF, 0x80000000, 31, 32, 33, 63, 64, 7, 0x7FFFFFFF, 0xFFFFFFFFFFFFFFFF,
                        0x8000000000000000, 255, 0x1234567])
        return [(want + '.const', c)]
    cands = [o for o in ops if SIG[o][1] == want]
    op = rng.choice(cands)
    out = []
    for t in SIG[op][0]:
        out += _expr(rng, t, depth - 1, params, ops)
    return out + [(op,)]


def nested_int(seed, k, depth=3, heavy_ok=True):
    """k-th nested integer expression program (deterministic in (seed,k))."""
    rng = random.Random(seed * 100003 + k)
    cheap = [o for o in INT_OPS if not any(x in o for x in ('mul', 'div', 'rem'))]
    heavy = [o for o in INT_OPS if any(x in o for x in ('div', 'rem', 'mul'))]
    params = [I32, I64, I32, I64]
    want = rng.choice([I32, I64])
    if heavy_ok and k % 3 == 0:
        # one mul/div/rem whose operands are built only from operators that the reference and w2c2_base.h
        # render identically (add sub and or xor, constants, parameters) so that the two multiplier/divider
        # terms stay aligned (DESIGN.md E2); the heavy result then feeds one more cheap operator.
        aligned = [o for o in cheap if o.split('.')[1] in ('add', 'sub', 'and', 'or', 'xor')]
        hop = rng.choice(heavy)
        ht = SIG[hop][1]
        body = []
        for t in SIG[hop][0]:
            body += _expr(rng, t, depth - 1, params, aligned)
        body += [(hop,)]
        wrap = rng.choice([o for o in cheap if SIG[o][0][0] == ht])
        for t in SIG[wrap][0][1:]:
            body += _expr(rng, t, 1, params, cheap)
        body += [(wrap,)]
        want = SIG[wrap][1]
    else:
        body = _expr(rng, want, depth, params, cheap)
    return Module(funcs=[Func(params, [want], [], body)], exports=[('f', 'func', 0)])


# ====================================================================== C03 control flow
CF_PARAMS = [I32, I32, I64, F32, F64]     # p0 = loop fuel (assumed <= 3), p1.. data
HOST_H = Import('env', 'h', 'func', ([I32], [I32]))


class CFGen:
    """Random well-typed structured programs (valid by construction)."""
    def __init__(self, rng, max_depth=3, use_host=True):
        self.rng = rng
        self.max_depth = max_depth
        self.use_host = use_host
        self.locals = []
        self.nparams = len(CF_PARAMS)
        self.fuel_used = False

    def ltypes(self):
        return CF_PARAMS + self.locals

    def const(self, t):
        r = self.rng
        if t == I32:
            return (t + '.const', r.choice([0, 1, 2, 3, 7, 0xFFFFFFFF, 0x80000000, 100]))
        if t == I64:
            return (t + '.const', r.choice([0, 1, 5, 0xFFFFFFFFFFFFFFFF, 0x8000000000000000, 1 << 40]))
        if t == F32:
            return (t + '.const', r.choice([0, 0x3F800000, 0x80000000, 0x7FC00001, 0xFF800000, 0x00000001]))
        return (t + '.const', r.choice([0, 0x3FF0000000000000, 0x8000000000000000, 0x7FF8000000000001, 0x7FF0000000000000]))

    def expr(self, t, depth, labels):
        """instructions leaving exactly one value of type t"""
        r = self.rng
        choices = ['const', 'local', 'local']
        if depth > 0:
            choices += ['tee', 'select', 'block', 'if', 'binop' if t in (I32, I64) else 'local']
            if t == I32 and self.use_host:
                choices += ['host']
            if t == I32:
                choices += ['cmp']
            if depth > 1:
                choices += ['loopval']
        c = r.choice(choices)
        lt = self.ltypes()
        if c == 'const':
            return [self.const(t)]
        if c == 'local':
            cands = [i for i, x in enumerate(lt) if x == t and i != 0]
            if not cands:
                return [self.const(t)]
            return [('local.get', r.choice(cands))]
        if c == 'tee':
            cands = [i for i, x in enumerate(lt) if x == t and i != 0]
            if not cands:
                return [self.const(t)]
            return self.expr(t, depth - 1, labels) + [('local.tee', r.choice(cands))]
        if c == 'select':
            return self.expr(t, depth - 1, labels) + self.expr(t, depth - 1, labels) + self.expr(I32, depth - 1, labels) + [('select',)]
        if c == 'binop':
            op = r.choice(['add', 'sub', 'xor', 'and', 'or'])
            return self.expr(t, depth - 1, labels) + self.expr(t, depth - 1, labels) + [('%s.%s' % (t, op),)]
        if c == 'cmp':
            tt = r.choice([I32, I64])
            return self.expr(tt, depth - 1, labels) + self.expr(tt, depth - 1, labels) + [('%s.%s' % (tt, r.choice(['eq', 'lt_u', 'gt_s', 'ne'])),)]
        if c == 'host':
            return self.expr(I32, depth - 1, labels) + [('call', 0)]
        if c == 'block':
            body = self.stmts(depth - 1, labels + [('block', t)], r.randint(0, 2)) + self.value_or_branch(t, depth - 1, labels + [('block', t)])
            return [('block', t, body)]
        if c == 'loopval':
            body = self.stmts(depth - 1, labels + [('loop', t)], r.randint(0, 1)) + self.expr(t, depth - 1, labels + [('loop', t)])
            return [('loop', t, body)]
        if c == 'if':
            cond = self.expr(I32, depth - 1, labels)
            l2 = labels + [('if', t)]
            return cond + [('if', t, self.stmts(depth - 1, l2, r.randint(0, 1)) + self.value_or_branch(t, depth - 1, l2),
                            self.stmts(depth - 1, l2, r.randint(0, 1)) + self.value_or_branch(t, depth - 1, l2))]
        raise Exception(c)

    def junk(self, depth, labels):
        """0..2 extra operands pushed below a carried value"""
        out = []
        for _ in range(self.rng.randint(0, 2)):
            out += self.expr(self.rng.choice([I32, I64, F32, F64]), min(depth, 1), labels)
        return out

    def branch_to(self, k, depth, labels):
        """unconditional transfer to label k (relative depth) carrying what it needs, with junk below"""
        kind, t = labels[-1 - k]
        out = self.junk(depth, labels)
        if kind != 'loop' and t is not None:
            out += self.expr(t, depth, labels)
        return out + [('br', k)]

    def dead_code(self, depth, labels):
        """valid code following an unconditional transfer (must be skipped without effect)"""
        r = self.rng
        out = []
        for _ in range(r.randint(0, 2)):
            c = r.choice(['stmt', 'const', 'nest', 'host'])
            if c == 'stmt':
                out += self.stmts(min(depth, 1), labels, 1)
            elif c == 'const':
                out += [self.const(r.choice([I32, I64, F32, F64])), ('drop',)]
            elif c == 'host' and self.use_host:
                out += [('i32.const', 99), ('call', 0), ('drop',)]
            else:
                t = r.choice([None, I32, F64])
                inner = [('i64.const', 1 << 35), ('drop',)] + ([self.const(t)] if t else [])
                if r.random() < 0.5:
                    blk = ('block', t, inner)
                    out += [blk] + ([('drop',)] if t else [])
                else:
                    out += [('i32.const', 1), ('if', t, inner, list(inner))] + ([('drop',)] if t else [])
        return out

    def value_or_branch(self, t, depth, labels):
        """end of a block with result type t: either fall through with a value or leave by a branch (+dead code)"""
        r = self.rng
        if t is None:
            return []
        if depth > 0 and r.random() < 0.35:
            # leave via br to any enclosing label of any depth, then dead code that still type-checks
            k = r.randrange(len(labels))
            # never branch backwards: a br to a loop label would skip the fuel decrement (or re-enter a value
            # loop) and the program would not terminate; take the next enclosing non-loop label (the function
            # label always qualifies)
            while labels[-1 - k][0] == 'loop':
                k += 1
            out = self.branch_to(k, depth - 1, labels)
            out += self.dead_code(depth - 1, labels)
            out += [self.const(t)]   # unreachable, keeps the body well-typed for strict validators
            return out
        return self.expr(t, depth, labels)

    def stmts(self, depth, labels, n):
        out = []
        for _ in range(n):
            out += self.stmt(depth, labels)
        return out

    def stmt(self, depth, labels):
        """instructions with net stack effect 0"""
        r = self.rng
        lt = self.ltypes()
        choices = ['set', 'set', 'drop', 'nop']
        if self.use_host:
            choices += ['host']
        if depth > 0:
            choices += ['block', 'if', 'ifelse', 'br_if', 'br_if_val', 'loop', 'br_table']
        c = r.choice(choices)
        if c == 'nop':
            return [('nop',)]
        if c == 'set':
            i = r.randrange(1, len(lt))
            return self.expr(lt[i], depth, labels) + [('local.set', i)]
        if c == 'drop':
            return self.expr(r.choice([I32, I64, F32, F64]), depth, labels) + [('drop',)]
        if c == 'host':
            return self.expr(I32, depth, labels) + [('call', 0), ('drop',)]
        if c == 'block':
            l2 = labels + [('block', None)]
            return [('block', None, self.stmts(depth - 1, l2, r.randint(1, 2)))]
        if c == 'if':
            l2 = labels + [('if', None)]
            return self.expr(I32, depth - 1, labels) + [('if', None, self.stmts(depth - 1, l2, r.randint(1, 2)))]
        if c == 'ifelse':
            l2 = labels + [('if', None)]
            return self.expr(I32, depth - 1, labels) + [('if', None, self.stmts(depth - 1, l2, r.randint(0, 2)), self.stmts(depth - 1, l2, r.randint(0, 2)))]
        if c == 'br_if':
            cands = [k for k in range(len(labels)) if labels[-1 - k][0] == 'loop' and False or (labels[-1 - k][0] != 'loop' and labels[-1 - k][1] is None)]
            if not cands:
                return [('nop',)]
            k = r.choice(cands)
            if labels[-1 - k][0] == 'func':
                pass
            return self.expr(I32, depth - 1, labels) + [('br_if', k)]
        if c == 'br_if_val':
            cands = [k for k in range(len(labels)) if labels[-1 - k][0] != 'loop' and labels[-1 - k][1] is not None]
            if not cands:
                return [('nop',)]
            k = r.choice(cands)
            t = labels[-1 - k][1]
            j = self.junk(0, labels)
            nj = self._last_junk_n
            # junk + value + cond; when not taken: drop value and the junk operands
            return j + self.expr(t, depth - 1, labels) + self.expr(I32, depth - 1, labels) + [('br_if', k), ('drop',)] + [('drop',)] * nj
        if c == 'loop':
            # bounded loop driven by the fuel parameter p0: block{ loop{ if fuel==0 br 1; body; fuel--; br 0 } }
            # (not nested inside another fuel loop and at most two per function: keeps the unrolled size linear)
            if getattr(self, 'in_loop', False) or getattr(self, 'nloops', 0) >= 2:
                return [('nop',)]
            self.fuel_used = True
            self.in_loop = True
            self.nloops = getattr(self, 'nloops', 0) + 1
            l2 = labels + [('block', None), ('loop', None)]
            inner = self.stmts(depth - 1, l2, r.randint(1, 2))
            self.in_loop = False
            body = [('local.get', 0), ('i32.eqz',), ('br_if', 1)] + inner + \
                   [('local.get', 0), ('local.get', 0), ('i32.const', 0), ('i32.ne',), ('i32.sub',), ('local.set', 0), ('br', 0)]
            return [('block', None, [('loop', None, body)])]
        if c == 'br_table':
            # block nest with a br_table choosing among arity-0 labels, dead code after it
            n = r.randint(0, 3)
            l2 = labels + [('block', None)]
            cands = [k for k in range(len(l2)) if l2[-1 - k][1] is None and l2[-1 - k][0] not in ('loop', 'func')]
            tbl = [r.choice(cands) for _ in range(n)]
            body = self.stmts(depth - 1, l2, r.randint(0, 1)) + self.junk(0, l2) + self.expr(I32, depth - 1, l2) + \
                   [('br_table', tbl, r.choice(cands))] + self.dead_code(depth - 1, l2)
            return [('block', None, body)]
        raise Exception(c)

    def _count_pushed(self, instrs):
        # junk() pushes one value per top-level expression; expressions are built so that each leaves one value.
        # count by simulating: every expr() call result is a flat list, so track via markers
        return getattr(self, '_last_junk_n', 0)

    def junk(self, depth, labels):  # noqa: F811 (redefinition keeps count)
        out = []
        n = self.rng.randint(0, 2)
        for _ in range(n):
            out += self.expr(self.rng.choice([I32, I64, F32, F64]), min(depth, 1), labels)
        self._last_junk_n = n
        return out


def control_flow(seed, k, max_depth=3):
    import wasmvalid
    for attempt in range(50):
        m = _control_flow(seed, k, max_depth, attempt)
        try:
            wasmvalid.validate(m)
            return m
        except wasmvalid.Invalid:
            continue
    raise Exception('control_flow generator: no valid program')


def _control_flow(seed, k, max_depth, attempt):
    rng = random.Random(seed * 7919 + k * 31 + 5 + attempt * 1000003)
    g = CFGen(rng, max_depth)
    nloc = rng.randint(0, 3)
    g.locals = [rng.choice([I32, I64, F32, F64]) for _ in range(nloc)]
    rt = rng.choice([I32, I64, F32, F64, I32, None])
    labels = [('func', rt)]
    body = g.stmts(max_depth, labels, rng.randint(1, 3))
    if rt is not None:
        if rng.random() < 0.3:
            body += g.junk(1, labels) + g.expr(rt, max_depth - 1, labels) + [('return',)] + g.dead_code(1, labels) + [g.const(rt)]
        else:
            body += g.expr(rt, max_depth, labels)
    f = Func(CF_PARAMS, [rt] if rt else [], g.locals, body)
    # run-length groups: sometimes split identical neighbours into separate declarations
    m = Module(imports=[HOST_H], funcs=[f], exports=[('f', 'func', 1)])
    return m


def branch_matrix():
    """targeted shapes: br / br_if from nesting depth d to label l with e extra operands below the carried
    value, for every result type; br_table with 0..3 entries; dead code with nested structure."""
    out = []
    consts = {I32: ('i32.const', 7), I64: ('i64.const', (1 << 40) + 3), F32: ('f32.const', 0x7FC00123), F64: ('f64.const', 0xFFF0000000000000)}
    for t in (I32, I64, F32, F64):
        pidx = {I32: 1, I64: 2, F32: 3, F64: 4}[t]
        for d in (1, 2, 3):
            for l in range(d):
                for e in (0, 1, 2):
                    for cond in (False, True):
                        extra = [consts[I64], consts[F32]][:e]
                        inner = list(extra) + [('local.get', pidx)]
                        if cond:
                            inner += [('local.get', 1), ('br_if', l)] + [('drop',)] * (e + 1) + [consts[t]]
                        else:
                            inner += [('br', l), ('i32.const', 5), ('call', 0), ('drop',)] + [consts[t]]
                        body = inner
                        for lev in range(d):
                            # blocks at and outside the target carry type t; wrap
                            body = [('block', t, body)]
                            if lev < d - 1:
                                # consume inner result and produce a different value so the wrong target is visible
                                body = body + [('drop',), consts[t]] if lev != l - 0 and False else body
                        name = 'br_%s_d%d_l%d_e%d_%s' % (t, d, l, e, 'if' if cond else 'br')
                        # make levels distinguishable: after each inner block add host call marking the level
                        def mark(b, lev):
                            return b
                        f = Func(CF_PARAMS, [t], [], _mark_levels(body, t))
                        out.append((name, Module(imports=[HOST_H], funcs=[f], exports=[('f', 'func', 1)])))
    for n in range(0, 4):
        for perm in range(2):
            # br_table inside 3 nested blocks; each exit path calls the host with a different marker
            tbl = [(i + perm) % 3 for i in range(n)]
            body = [('block', None, [('block', None, [('block', None, [
                ('i64.const', 9), ('local.get', 1), ('br_table', tbl, 2 - perm),
                ('i32.const', 77), ('call', 0), ('drop',), ('block', I32, [('i32.const', 1), ('if', None, [('nop',)], [('unreachable',)]), ('i32.const', 2)]), ('drop',)]),
                ('i32.const', 10), ('call', 0), ('drop',)]),
                ('i32.const', 11), ('call', 0), ('drop',)]),
                ('i32.const', 12), ('call', 0)]
            f = Func(CF_PARAMS, [I32], [], body)
            out.append(('brtable_n%d_p%d' % (n, perm), Module(imports=[HOST_H], funcs=[f], exports=[('f', 'func', 1)])))
    # locals: run-length groups, zero init, tee
    for variant in range(4):
        locs = [[I32, I32, I64], [F32, I64, I64, F64], [I64], [F64, F64, I32, I32]][variant]
        body = []
        base = len(CF_PARAMS)
        for i, t in enumerate(locs):
            body += [('local.get', base + i), ('drop',)]
        # result: mix of all locals of type i64/i32 folded by xor after a tee into the last one
        acc = [('i32.const', 0)]
        for i, t in enumerate(locs):
            if t == I32:
                acc += [('local.get', base + i), ('i32.xor',)]
            elif t == I64:
                acc += [('local.get', base + i), ('i32.wrap_i64',), ('i32.xor',)]
            elif t == F32:
                acc += [('local.get', base + i), ('i32.reinterpret_f32',), ('i32.xor',)]
            else:
                acc += [('local.get', base + i), ('i64.reinterpret_f64',), ('i32.wrap_i64',), ('i32.xor',)]
        body += acc + [('local.get', 1), ('local.tee', 0), ('i32.add',), ('local.get', 0), ('i32.add',)]
        f = Func(CF_PARAMS, [I32], locs, body)
        out.append(('locals_v%d' % variant, Module(imports=[HOST_H], funcs=[f], exports=[('f', 'func', 1)])))
    # locals declared through unusual but valid run-length groups: zero-count groups first / in the middle / last,
    # one group per local although neighbours share a type; written, read back and folded so that a mis-typed or
    # mis-indexed local changes the result
    for gi, groups in enumerate([[(0, I32), (1, I64)], [(0, F64), (2, I32), (0, I64), (1, F32)], [(1, I64), (1, I64), (1, I32)], [(2, F64), (0, I32)], [(0, I64), (0, F32), (3, I32)]]):
        locs = [t for (n, t) in groups for _ in range(n)]
        base = len(CF_PARAMS)
        body = []
        src = {I32: ('local.get', 1), I64: ('local.get', 2), F32: ('local.get', 3), F64: ('local.get', 4)}
        for i, t in enumerate(locs):
            body += [src[t]]
            if t == I32:
                body += [('i32.const', 7 + i), ('i32.add',)]
            elif t == I64:
                body += [('i64.const', (1 << 33) + i), ('i64.add',)]
            body += [('local.set', base + i)]
        acc = [('i64.const', 0)]
        for i, t in enumerate(locs):
            acc += [('i64.const', 3), ('i64.rotl',), ('local.get', base + i)]
            acc += {I32: [('i64.extend_i32_u',)], I64: [], F32: [('i32.reinterpret_f32',), ('i64.extend_i32_u',)], F64: [('i64.reinterpret_f64',)]}[t]
            acc += [('i64.xor',)]
        f = Func(CF_PARAMS, [I64], locs, body + acc)
        f.local_groups = groups
        out.append(('locals_groups_%d' % gi, Module(imports=[HOST_H], funcs=[f], exports=[('f', 'func', 1)])))
    # br_table carrying a value to targets that were entered at DIFFERENT operand-stack heights (extra operands between
    # the nested blocks): every target has its own result slot; each exit level is marked by a host call
    for t in (I32, I64, F32, F64):
        pidx = {I32: 1, I64: 2, F32: 3, F64: 4}[t]
        for ei, heights in enumerate(((0, 1, 2), (2, 0, 1), (1, 1, 0))):
            for ti, (tbl, dflt) in enumerate((([0, 1, 2], 1), ([2, 0], 0), ([], 2), ([1, 1, 0, 2], 2))):
                def extras(n):
                    return [consts[I64], consts[F32]][:n]
                def unwrap(n, lev):
                    return [('local.set', 5)] + [('drop',)] * n + [('local.get', 5), ('i32.const', 100 + lev), ('call', 0), ('drop',)]
                inner = extras(heights[2]) + [('local.get', pidx), ('local.get', 1), ('br_table', tbl, dflt), consts[t]]
                mid = extras(heights[1]) + [('block', t, inner)] + unwrap(heights[1], 2)
                outer = extras(heights[0]) + [('block', t, mid)] + unwrap(heights[0], 1)
                body = [('block', t, outer), ('i32.const', 100), ('call', 0), ('drop',)]
                f = Func(CF_PARAMS, [t], [t], body)
                out.append(('brtable_val_%s_h%d_t%d' % (t, ei, ti), Module(imports=[HOST_H], funcs=[f], exports=[('f', 'func', 1)])))
    # a block / loop / if with a result whose end is reached only through dead code (left by br to the function
    # label from a deeper operand slot), followed by a consumer of the never-produced result slot
    for t in (I32, I64, F32, F64):
        pidx = {I32: 1, I64: 2, F32: 3, F64: 4}[t]
        leave = [('i32.const', 2), ('local.get', pidx), ('br', 1), consts[t]]
        for kind in ('block', 'loop', 'if'):
            if kind == 'if':
                st = [('local.get', 1), ('if', t, list(leave), list(leave))]
            else:
                st = [(kind, t, list(leave))]
            for consumer in ('return', 'fall', 'drop'):
                tail = {'return': [('return',)], 'fall': [], 'drop': [('drop',), consts[t]]}[consumer]
                if consumer == 'return':
                    body = [('i32.const', 1)] + st + tail + [consts[t]]
                elif consumer == 'fall':
                    body = [('i32.const', 1), ('drop',), ('i32.const', 9), ('call', 0)] + st + [('local.set', 5 + 0)] + [('drop',), ('local.get', 5)]
                else:
                    body = [('i32.const', 1)] + st + tail + [('local.set', 5), ('drop',), ('local.get', 5)]
                f = Func(CF_PARAMS, [t], [t], body)
                out.append(('deadend_%s_%s_%s' % (kind, t, consumer), Module(imports=[HOST_H], funcs=[f], exports=[('f', 'func', 1)])))
    return out


def _mark_levels(body, t):
    """body is nested blocks [('block', t, inner)]: after each inner block add a host-call marker and an
    xor-free re-push so that exiting at the wrong level changes the host trace."""
    def rec(b, lev):
        if len(b) == 1 and b[0][0] == 'block':
            inner = rec(b[0][2], lev + 1)
            blk = ('block', b[0][1], inner)
            return [blk, ('i32.const', 100 + lev), ('call', 0), ('drop',)]
        return b
    return rec(body, 0)


# ====================================================================== C04 calls
def _mix(types, base=0):
    """instructions folding locals base.. of the given types into one i64, asymmetrically (order-sensitive)"""
    out = [('i64.const', 0x9E3779B97F4A7C15)]
    for i, t in enumerate(types):
        out += [('i64.const', 5), ('i64.rotl',)]
        out += [('local.get', base + i)]
        if t == I32:
            out += [('i64.extend_i32_u',)]
        elif t == F32:
            out += [('i32.reinterpret_f32',), ('i64.extend_i32_u',)]
        elif t == F64:
            out += [('i64.reinterpret_f64',)]
        out += [('i64.xor',)]
    return out


def calls_family(seed, quick):
    """list of (name, module, script, harness_kw)"""
    rng = random.Random(seed + 99)
    out = []
    T = [I32, I64, F32, F64]
    # --- direct calls: every parameter list shape of 0..4 params from a set where neighbours differ or repeat
    plists = [[], [I32], [I64, I32], [I32, I32], [F32, F64, I32], [I64, I64, F32], [F64, I32, I32, I64], [I32, I64, F32, F64],
              [F32, F32, F64, F64]]
    if not quick:
        for _ in range(12):
            plists.append([rng.choice(T) for _ in range(rng.randint(1, 4))])
    for pi, pl in enumerate(plists):
        for nimp in (0, 1, 2):
            for pos in (0, 1, 2):
                if quick and (pi + nimp + pos) % 3 != 0:
                    continue
                imports = [Import('env', 'h%d' % k, 'func', ([I64], [I64]) if k == 0 else ([I32, F64], [])) for k in range(nimp)]
                # defined functions: fillers + callee at position `pos` among definitions + caller last
                callee = Func(pl, [I64], [], _mix(pl) + ([('call', 0)] if nimp else []))
                fillers = [Func([I32], [I32], [], [('local.get', 0), ('i32.const', 17 + k), ('i32.add',)]) for k in range(2)]
                defs = fillers[:pos] + [callee] + fillers[pos:]
                callee_idx = nimp + pos
                # caller takes the same params in reversed order and passes them in declaration order of the callee
                rpl = list(reversed(pl))
                n = len(pl)
                caller_body = [('local.get', n - 1 - i) for i in range(n)] + [('call', callee_idx)]
                if nimp == 2:
                    caller_body = [('i32.const', 3), ('f64.const', 0x4000000000000000), ('call', 1)] + caller_body
                caller = Func(rpl, [I64], [], caller_body)
                m = Module(imports=imports, funcs=defs + [caller], exports=[('f', 'func', nimp + len(defs))])
                out.append(('direct_p%d_i%d_at%d' % (pi, nimp, pos), m, [{'call': 'f'}], {'max_host_calls': 4}))
    # --- recursion and mutual recursion (fuel <= 3)
    rec = Func([I32, I64], [I64], [], [
        ('local.get', 0), ('i32.eqz',), ('if', I64, [('local.get', 1)],
                                           [('local.get', 0), ('i32.const', 1), ('i32.sub',),
                                            ('local.get', 1), ('i64.const', 3), ('i64.shl',), ('local.get', 0), ('i64.extend_i32_u',), ('i64.add',),
                                            ('call', 0)])])
    out.append(('recursion', Module(funcs=[rec], exports=[('f', 'func', 0)]), [{'call': 'f', 'assume': {0: '$ <= 3'}}], {}))
    ev = Func([I32], [I32], [], [('local.get', 0), ('i32.eqz',), ('if', I32, [('i32.const', 1)], [('local.get', 0), ('i32.const', 1), ('i32.sub',), ('call', 2)])])
    od = Func([I32], [I32], [], [('local.get', 0), ('i32.eqz',), ('if', I32, [('i32.const', 0)], [('local.get', 0), ('i32.const', 1), ('i32.sub',), ('call', 1)])])
    hostm = Import('env', 'h0', 'func', ([I64], [I64]))
    out.append(('mutual_recursion', Module(imports=[hostm], funcs=[ev, od], exports=[('f', 'func', 1), ('g', 'func', 2)]),
                [{'call': 'f', 'assume': {0: '$ <= 3'}}, {'call': 'g', 'assume': {0: '$ <= 3'}}], {}))
    # --- exported imported function
    out.append(('export_import', Module(imports=[hostm], funcs=[Func([], [], [], [('nop',)])], exports=[('hh', 'func', 0)]),
                [{'call': 'hh'}], {}))
    # --- the same host function imported more than once (each import still occupies its own function index)
    hb = ([I64], [I64])
    for vi, names in enumerate((['h0', 'h0', 'h1'], ['h0', 'h1', 'h0'], ['h1', 'h0', 'h0', 'h0'])):
        imps = [Import('env', nm, 'func', hb) for nm in names]
        ni = len(imps)
        callers = [Func([I64], [I64], [], [('local.get', 0), ('i64.const', 11 * (k + 1)), ('i64.add',), ('call', k), ('i64.const', k + 1), ('i64.xor',)]) for k in range(ni)]
        viatab = Func([I32, I64], [I64], [], [('local.get', 1), ('local.get', 0), ('call_indirect', hb, 0)])
        # variant 0 ends with a function that nothing refers to: every index stays in range even if an import were lost
        tailf = [Func([I64], [I64], [], [('local.get', 0), ('i64.const', 77), ('i64.mul',)])] if vi == 0 else []
        m = Module(imports=imps, funcs=callers + [viatab] + tailf, tables=[(ni + 2, ni + 2)], elems=[Elem(('i32.const', 0), list(range(ni)) + [ni + 1])],
                   exports=[('c%d' % k, 'func', ni + k) for k in range(ni)] + [('e%d' % k, 'func', k) for k in range(ni)] + [('t', 'func', 2 * ni)])
        script = [{'call': 'c%d' % k} for k in range(ni)] + [{'call': 'e%d' % (ni - 1)}, {'call': 't', 'assume': {0: '$ <= %d' % ni}}]
        out.append(('dupimport_%d' % vi, m, script, {'tab_slots': ni + 2, 'max_host_calls': 2 * ni + 4}))
    # --- call_indirect with every value type among the parameters (f32 arguments must arrive as f32: no default promotion)
    for vi, (pl, rt) in enumerate((([F32, I32], F32), ([F64, F32, I64, F32], F64), ([I32, F32], I32), ([F32], I64), ([I64, F64], F32))):
        sig = (pl, [rt])
        def fold(mul):
            body = []
            for k, t in enumerate(pl):
                body += [('local.get', k)]
                body += {I32: [('i64.extend_i32_u',)], I64: [], F32: [('i32.reinterpret_f32',), ('i64.extend_i32_u',)], F64: [('i64.reinterpret_f64',)]}[t]
                if k:
                    body += [('i64.const', mul), ('i64.rotl',), ('i64.xor',)]
            body += {I32: [('i32.wrap_i64',)], I64: [], F32: [('i32.wrap_i64',), ('i32.const', 0x007FFFFF), ('i32.and',), ('f32.reinterpret_i32',)],
                     F64: [('i64.const', 0x000FFFFFFFFFFFFF), ('i64.and',), ('f64.reinterpret_i64',)]}[rt]
            return body
        g1 = Func(pl, [rt], [], fold(7))
        g2 = Func(pl, [rt], [], fold(13))
        n = len(pl)
        caller = Func([I32] + pl, [rt], [], [('local.get', 1 + k) for k in range(n)] + [('local.get', 0), ('call_indirect', sig, 0)])
        m = Module(funcs=[g1, g2, caller], tables=[(3, 3)], elems=[Elem(('i32.const', 0), [1, 0])], exports=[('c', 'func', 2)])
        out.append(('indirect_types_%d' % vi, m, [{'call': 'c', 'assume': {0: '$ <= 1'}}], {'tab_slots': 3}))
    # --- call_indirect: defined / imported table, const / global offsets, 1..3 entries, overlapping segments
    sig_a = ([I32, I64], [I64])
    sig_b = ([I64], [I64])
    fa1 = Func([I32, I64], [I64], [], [('local.get', 1), ('local.get', 0), ('i64.extend_i32_u',), ('i64.sub',)])
    fa2 = Func([I32, I64], [I64], [], [('local.get', 1), ('i64.const', 7), ('i64.rotl',), ('local.get', 0), ('i64.extend_i32_s',), ('i64.xor',)])
    fb1 = Func([I64], [I64], [], [('local.get', 0), ('i64.const', 1), ('i64.add',)])
    for tabimp in (False, True):
        for offkind in ('const', 'global'):
            for segs in ([[1, 2]], [[1], [3, 2]], [[1, 2, 3], [2]], [[0, 1, 2]]):
                if quick and (len(segs) + (1 if tabimp else 0) + (1 if offkind == 'global' else 0)) % 2 == 1 and segs != [[1, 2, 3], [2]]:
                    continue
                imports = [hostm]   # function index 0 = import (sig_b)
                if tabimp:
                    imports.append(Import('env', 'tab', 'table', (6, 8)))
                if offkind == 'global':
                    imports.append(Import('env', 'base', 'global', (I32, False)))
                caller = Func([I32, I32, I64], [I64], [], [('local.get', 1), ('local.get', 2), ('local.get', 0), ('call_indirect', sig_a, 0)])
                caller_b = Func([I32, I64], [I64], [], [('local.get', 1), ('local.get', 0), ('call_indirect', sig_b, 0)])
                funcs = [fa1, fa2, fb1, caller, caller_b]     # indices 1,2,3,4,5
                elems = []
                for si, fl in enumerate(segs):
                    off = ('i32.const', si) if offkind == 'const' else ('global.get', 0)
                    if offkind == 'global' and si > 0:
                        off = ('i32.const', 2)
                    elems.append(Elem(off, fl))
                m = Module(imports=imports, funcs=funcs, tables=[] if tabimp else [(6, 8)], elems=elems,
                           exports=[('ca', 'func', 4), ('cb', 'func', 5)])
                script = [{'call': 'ca'}] + ([{'call': 'cb'}] if any(x in (0, 3) for sg in segs for x in sg) else [])
                nm = 'indirect_%s_%s_%s' % ('imptab' if tabimp else 'deftab', offkind, '_'.join(''.join(str(x) for x in s) for s in segs))
                out.append((nm, m, script, {'tab_slots': 6, 'max_host_calls': 4}))
    return out


# ====================================================================== C05 linear memory
def memory_family(seed, quick):
    out = []
    VT = {'i32': I32, 'i64': I64, 'f32': F32, 'f64': F64}
    offsets = [0, 1, 13] if quick else [0, 1, 2, 13, 29, 55]
    mems = [(1, 2)]
    datas = [Data(('i32.const', 3), bytes([0x81, 0x7F, 0xFF, 0x00, 0x80, 0x01, 0xFE, 0x55, 0xAA]))]
    for k, op in enumerate(LOADS):
        vt = VT[op[:3]]
        for oi, off in enumerate(offsets):
            if quick and (k + oi) % 3 != 0 and oi != 0:
                continue
            for align in sorted(set([0, natural_align_of(op)])):
                if quick and align != 0 and oi != 0:
                    continue
                f = Func([I32], [vt], [], [('local.get', 0), (op, align, off)])
                m = Module(funcs=[f], mems=mems, datas=datas, exports=[('f', 'func', 0)])
                out.append(('load_%s_o%d_a%d' % (op.replace('.', '_'), off, align), m, [{'call': 'f'}], {'sym_window': 12}))
    for k, op in enumerate(STORES):
        vt = VT[op[:3]]
        for oi, off in enumerate(offsets):
            if quick and (k + oi) % 3 != 0 and oi != 0:
                continue
            f = Func([I32, vt], [], [], [('local.get', 0), ('local.get', 1), (op, 0, off)])
            g = Func([I32], [I64], [], [('local.get', 0), ('i64.load', 0, 0)])
            m = Module(funcs=[f, g], mems=mems, datas=datas, exports=[('f', 'func', 0), ('g', 'func', 1)])
            out.append(('store_%s_o%d' % (op.replace('.', '_'), off), m, [{'call': 'f'}, {'call': 'g'}], {'sym_window': 0}))
    # size / grow sequences (state carried across calls); declared max 3, and without declared max
    for mx in (3, None, 'shared'):
        grow = Func([I32], [I32], [], [('local.get', 0), ('memory.grow',)])
        size = Func([], [I32], [], [('memory.size',)])
        st = Func([I32, I64], [], [], [('local.get', 0), ('local.get', 1), ('i64.store', 0, 0)])
        ld = Func([I32], [I64], [], [('local.get', 0), ('i64.load', 0, 0)])
        m = Module(funcs=[grow, size, st, ld], mems=[(1, 3, True)] if mx == 'shared' else [(1, mx)], datas=datas,
                   exports=[('grow', 'func', 0), ('size', 'func', 1), ('st', 'func', 2), ('ld', 'func', 3)])
        for si, script in enumerate([[{'call': 'st'}, {'call': 'grow'}, {'call': 'size'}, {'call': 'ld'}],
                                      [{'call': 'grow'}, {'call': 'grow'}, {'call': 'size'}],
                                      [{'call': 'grow'}, {'call': 'st'}, {'call': 'ld'}],
                                      [{'call': 'size'}, {'call': 'grow', 'args': {0: 0}}, {'call': 'grow', 'args': {0: 0xFFFFFFFF}}, {'call': 'size'}]]):
            out.append(('grow_seq%d_max%s' % (si, mx), m, script, {'ref_pages': 3}))
    # bulk operations
    fill = Func([I32, I32, I32], [], [], [('local.get', 0), ('local.get', 1), ('local.get', 2), ('memory.fill',)])
    copy = Func([I32, I32, I32], [], [], [('local.get', 0), ('local.get', 1), ('local.get', 2), ('memory.copy',)])
    init = Func([I32, I32, I32], [], [], [('local.get', 0), ('local.get', 1), ('local.get', 2), ('memory.init', 1)])
    ld = Func([I32], [I64], [], [('local.get', 0), ('i64.load', 0, 0)])
    m = Module(funcs=[fill, copy, init, ld], mems=mems, datas=datas + [Data(None, bytes([9, 8, 7, 6, 5]), passive=True)], datacount=True,
               exports=[('fill', 'func', 0), ('copy', 'func', 1), ('init', 'func', 2), ('ld', 'func', 3)])
    # the byte count is fixed per query (CBMC's memmove/memset models are expensive for symbolic lengths);
    # destination, source and fill value stay symbolic, so overlap in both directions is covered for each length
    for n in ([0, 1, 3, 6] if quick else range(0, 7)):
        out.append(('bulk_fill_n%d' % n, m, [{'call': 'fill', 'args': {2: n}}, {'call': 'ld'}], {'sym_window': 8}))
        out.append(('bulk_copy_n%d' % n, m, [{'call': 'copy', 'args': {2: n}}, {'call': 'ld'}], {'sym_window': 8}))
    for n in ([0, 2, 5] if quick else range(0, 6)):
        out.append(('bulk_init_n%d' % n, m, [{'call': 'init', 'args': {2: n}}, {'call': 'ld'}], {'sym_window': 0}))
    out.append(('bulk_seq', m, [{'call': 'fill', 'args': {2: 3}}, {'call': 'copy', 'args': {2: 4}}, {'call': 'init', 'args': {2: 2}}], {'sym_window': 4}))
    return out


def natural_align_of(op):
    return natural_align(op)


# ====================================================================== C06 instantiation
def instantiation_family(seed, quick):
    out = []
    rng = random.Random(seed + 606)
    combos = []
    for memk in ('none', 'def', 'imp'):
        for tabk in ('none', 'def', 'imp'):
            for startk in (False, True):
                for ninst in (1, 2):
                    combos.append((memk, tabk, startk, ninst))
    plain = dict(mod='env', note='note', mem='mem', tab='tab', gi='gi', gj='gj', bump='bump', peek='peek', poke='poke', setj='setj', memory='memory')

    def build(ci, memk, tabk, startk, ninst, N, label):
        variant = ci % 3
        hostf = Import(N['mod'], N['note'], 'func', ([I32], []))
        imports = [hostf]
        if memk == 'imp':
            imports.append(Import(N['mod'], N['mem'], 'memory', (1, 2)))
        if tabk == 'imp':
            imports.append(Import(N['mod'], N['tab'], 'table', (5, 6)))
        imports.append(Import(N['mod'], N['gi'], 'global', (I32, False)))
        imports.append(Import(N['mod'], N['gj'], 'global', (I64, True)))
        # globals: indices 0,1 imported; defined from 2
        globs = [Global(I32, True, ('i32.const', 7 + ci)), Global(I32, False, ('global.get', 0)),
                 Global(I64, True, ('i64.const', 0x8000000000000000 + ci)), Global(F32, False, ('f32.const', 0x7FA00000)),
                 Global(F64, True, ('f64.const', 0xFFF0000000000001))][:2 + variant + 1]
        # function 1: start (increments g2, notes g2)
        startf = Func([], [], [], [('global.get', 2), ('i32.const', 1), ('i32.add',), ('global.set', 2), ('global.get', 2), ('call', 0)])
        # function 2: bump(x): g2 += x ; returns g2
        bump = Func([I32], [I32], [], [('global.get', 2), ('local.get', 0), ('i32.add',), ('global.set', 2), ('global.get', 2)])
        # function 3: peek(addr) -> i64 load (if memory) else g1 extended
        if memk != 'none':
            peek = Func([I32], [I64], [], [('local.get', 0), ('i64.load', 0, 0)])
            poke = Func([I32, I32], [], [], [('local.get', 0), ('local.get', 1), ('i32.store8', 0, 0)])
        else:
            peek = Func([I32], [I64], [], [('global.get', 3), ('i64.extend_i32_u',), ('local.get', 0), ('i64.extend_i32_u',), ('i64.add',)])
            poke = Func([I32, I32], [], [], [('local.get', 1), ('global.set', 2)])
        setj = Func([I64], [], [], [('local.get', 0), ('global.set', 1)])
        funcs = [startf, bump, peek, poke, setj]
        exports = [(N['bump'], 'func', 2), (N['peek'], 'func', 3), (N['poke'], 'func', 4), (N['setj'], 'func', 5)]
        if memk != 'none':
            exports.append((N['memory'], 'memory', 0))
        datas = []
        if memk != 'none':
            datas = [Data(('i32.const', 2), b'\x11\x22\x33\x44'), Data(('global.get', 0), b'\xA1\xA2\xA3'),
                     Data(('i32.const', 3), b'\x00\x66\x00\x00'), Data(('i32.const', 9), b''),
                     Data(None, b'\x99\x98', passive=True)][:2 + variant + (1 if variant == 2 else 0)]
            if variant == 1:
                datas[0].flag2 = True
        elems = []
        tables = []
        if tabk != 'none':
            if tabk == 'def':
                tables = [(5, 6)]
            elems = [Elem(('i32.const', 1), [2, 3]), Elem(('global.get', 0), [0, 1])][:1 + (variant % 2)]
        m = Module(imports=imports, funcs=funcs, tables=tables, mems=[(1, 2)] if memk == 'def' else [], globals=globs,
                   exports=exports, start=1 if startk else None, elems=elems, datas=datas, datacount=any(d.passive for d in datas))
        if ninst == 1:
            script = [{'call': N['bump']}, {'call': N['poke']}, {'call': N['peek']}]
        else:
            script = [{'call': N['bump'], 'inst': 0}, {'call': N['poke'], 'inst': 1}, {'call': N['setj'], 'inst': 0}, {'call': N['peek'], 'inst': 0}, {'call': N['bump'], 'inst': 1}]
        hk = {'n_inst': ninst, 'tab_slots': 5, 'max_host_calls': 4}
        out.append((label, m, script, hk))

    for ci, (memk, tabk, startk, ninst) in enumerate(combos):
        if quick and ci % 2 != (seed % 2) and not (memk == 'imp' and startk):
            continue
        build(ci, memk, tabk, startk, ninst, plain, 'inst_mem%s_tab%s_start%d_n%d_v%d' % (memk, tabk, int(startk), ninst, ci % 3))
    # import / export names are arbitrary UTF-8 strings: quotes, backslashes, bytes >= 0x80 followed by hex digits, control
    # characters, '?' sequences that form trigraphs, '%'; the resolver must be asked for exactly these names
    exotic = [
        dict(plain, mem='m"em', tab='t\\ab', gi='d\u00e9calage', gj='g?j??/x'),
        dict(plain, mod='en"v\\', gi='a\\n', gj='caf\u00e9', note='no"te', mem='mem%s%n'),
        dict(plain, gi='\x01\x7f', gj='a\tb\nc', bump='bu"m\\p', peek='p\u00e9ek', memory='me"m\\0'),
    ]
    for k, N in enumerate(exotic):
        build(16 + k, 'imp', 'imp', True, 1, N, 'inst_names_%d' % k)
    return out


# ====================================================================== C07 constants
I32_CLASSES = [0, 1, 0x7FFFFFFF, 0x80000000, 0xFFFFFFFF, 0x80000001, 0xFFFFFF80, 127, 128, 0x12345678, 0x7FFFFFFE, 64, 0xFFFFFFC0, 8191, 8192]
I64_CLASSES = [0, 1, 0x7FFFFFFFFFFFFFFF, 0x8000000000000000, 0xFFFFFFFFFFFFFFFF, 0x8000000000000001, 0xFFFFFFFF80000000, 0x80000000,
               0xFFFFFFFF, 0x100000000, 0xFF51AFD7ED558CCD, 0xC4CEB9FE1A85EC53, 0xF000000000000000, 0xC000000000000000, 0xBFFFFFFFFFFFFFFF,
               0xFF00000000000000, 0x00FFFFFFFFFFFFFF, 0x7F, 0x80, 0x3FFFFFFFFFFFFFFF, 0x4000000000000000, 0xFFFFFFFFFFFFFFC0]
F32_CLASSES = [0, 0x80000000, 0x7F800000, 0xFF800000, 0x7FC00000, 0xFFC00000, 0x7FA00000, 0x7F800001, 0xFF800001, 0x7FFFFFFF, 0xFFFFFFFF,
               0x7FC00001, 0x7F880000, 0x00000001, 0x80000001, 0x007FFFFF, 0x00800000, 0x7F7FFFFF, 0xFF7FFFFF, 0x3F800000, 0xBF800000,
               0x3DCCCCCD, 0x4F000000, 0xCF000000, 0x4F800000, 0x5F000000, 0x3EAAAAAB, 0x501502F9]
F64_CLASSES = [0, 0x8000000000000000, 0x7FF0000000000000, 0xFFF0000000000000, 0x7FF8000000000000, 0xFFF8000000000000, 0x7FF4000000000000,
               0x7FF0000000000001, 0xFFF0000000000001, 0x7FFFFFFFFFFFFFFF, 0xFFFFFFFFFFFFFFFF, 0x7FF8000000000001, 0x7FF0000000800000,
               0x7FF0000001000000, 0x7FF0000000400000, 0xFFF0000100000000, 0x7FF8000000800000, 0x0000000000000001, 0x8000000000000001,
               0x000FFFFFFFFFFFFF, 0x0010000000000000, 0x7FEFFFFFFFFFFFFF, 0xFFEFFFFFFFFFFFFF, 0x3FF0000000000000, 0xBFF0000000000000,
               0x3FB999999999999A, 0xC1E0000000200000, 0x43F0000000000000, 0x41DFFFFFFFC00000, 0xFE37E43C8800759C, 0x7E37E43C8800759C,
               0x8010000000000000, 0xA9B6A5D5C1B1D1C5]


def const_family(seed, quick):
    """modules returning constants from function bodies and from globals initialised by them; several per module"""
    rng = random.Random(seed + 707)
    out = []
    per = 6
    def chunks(l):
        return [l[i:i + per] for i in range(0, len(l), per)]
    extra = {I32: [rng.getrandbits(32) for _ in range(6)], I64: [rng.getrandbits(64) for _ in range(6)],
             F32: [rng.getrandbits(32) for _ in range(6)], F64: [rng.getrandbits(64) for _ in range(6)]}
    for t, classes in ((I32, I32_CLASSES), (I64, I64_CLASSES), (F32, F32_CLASSES), (F64, F64_CLASSES)):
        vals = list(classes) + extra[t]
        for ci, ch in enumerate(chunks(vals)):
            funcs, exports, globs, script = [], [], [], []
            for k, v in enumerate(ch):
                funcs.append(Func([], [t], [], [(t + '.const', v)]))
                exports.append(('c%d' % k, 'func', len(funcs) - 1))
                script.append({'call': 'c%d' % k})
                globs.append(Global(t, k % 2 == 0, (t + '.const', v)))
                funcs.append(Func([], [t], [], [('global.get', k)]))
                exports.append(('g%d' % k, 'func', len(funcs) - 1))
                script.append({'call': 'g%d' % k})
            m = Module(funcs=funcs, globals=globs, exports=exports)
            out.append(('const_%s_%d' % (t, ci), m, script, {'float_exact': True}))
    # constants as segment offsets (i32 only by the spec)
    for k, off in enumerate([0, 1, 5, 7]):
        f = Func([I32], [I64], [], [('local.get', 0), ('i64.load', 0, 0)])
        m = Module(funcs=[f], mems=[(1, 1)], tables=[(8, 8)], datas=[Data(('i32.const', off), b'\x01\x02\x03\x04')],
                   elems=[Elem(('i32.const', off), [0])], exports=[('ld', 'func', 0)])
        out.append(('const_offset_%d' % off, m, [{'call': 'ld'}], {'tab_slots': 8}))
    return out


# ====================================================================== C16 atomics
def atomics_family(seed, quick):
    out = []
    VT = {'i32': I32, 'i64': I64}
    mems = [(1, 1, True)]
    datas = [Data(('i32.const', 8), bytes([0x81, 0x7F, 0xFF, 0x00, 0x80, 0x01, 0xFE, 0x55, 0xAA, 0x33]))]
    offs = [0, 8] if quick else [0, 8, 24]
    rd = Func([I32], [I64], [], [('local.get', 0), ('i64.load', 0, 0)])
    for op in ATOMIC_LOADS + ATOMIC_STORES + ATOMIC_RMW:
        from refgen import atomic_info
        kind, vts, width, rop = atomic_info(op)
        vt = VT[vts]
        al = natural_align(op)
        for off in offs:
            if quick and off != 0 and (zlib.crc32(op.encode()) + off) % 3 != 0:
                continue
            if kind == 'load':
                f = Func([I32], [vt], [], [('local.get', 0), (op, al, off)])
            elif kind == 'store':
                f = Func([I32, vt], [], [], [('local.get', 0), ('local.get', 1), (op, al, off)])
            elif kind == 'rmw':
                f = Func([I32, vt], [vt], [], [('local.get', 0), ('local.get', 1), (op, al, off)])
            else:
                f = Func([I32, vt, vt], [vt], [], [('local.get', 0), ('local.get', 1), ('local.get', 2), (op, al, off)])
            m = Module(funcs=[f, rd], mems=mems, datas=datas, exports=[('f', 'func', 0), ('rd', 'func', 1)])
            # natural alignment of the effective address is the property's precondition
            script = [{'call': 'f', 'assume': {0: '(($ + %dull) %% %d) == 0' % (off, width)}}, {'call': 'rd'}]
            if kind in ('rmw', 'cmpxchg'):
                # two operations in sequence on the same location: results consistent with that order
                script = [script[0], dict(script[0]), script[1]]
            out.append(('atomic_%s_o%d' % (op.replace('.', '_'), off), m, script, {'sym_window': 8}))
    fence = Func([I32], [I32], [], [('atomic.fence',), ('local.get', 0)])
    out.append(('atomic_fence', Module(funcs=[fence], mems=mems, exports=[('f', 'func', 0)]), [{'call': 'f'}], {}))
    return out


# ====================================================================== C17 wait/notify emission
def futex_family():
    out = []
    mems = [(1, 1, True)]
    for off in (0, 8, 12):
        n = Func([I32, I32], [I32], [], [('local.get', 0), ('local.get', 1), ('memory.atomic.notify', 2, off)])
        w32 = Func([I32, I32, I64], [I32], [], [('local.get', 0), ('local.get', 1), ('local.get', 2), ('memory.atomic.wait32', 2, off)])
        w64 = Func([I32, I64, I64], [I32], [], [('local.get', 0), ('local.get', 1), ('local.get', 2), ('memory.atomic.wait64', 3, off if off != 12 else 16)])
        m = Module(funcs=[n, w32, w64], mems=mems, exports=[('n', 'func', 0), ('w32', 'func', 1), ('w64', 'func', 2)])
        out.append(('futex_emit_o%d' % off, m, [{'call': 'n'}, {'call': 'w32'}, {'call': 'w64'}], {'futex_stub': True}))
    return out


# ====================================================================== C02 conversion / bit-operation chains
FLOAT_CHAINS = [['f64.convert_i32_s', 'i32.trunc_sat_f64_s'], ['f64.promote_f32', 'f32.demote_f64'], ['f64.reinterpret_i64', 'i64.reinterpret_f64'], ['i64.trunc_sat_f64_u', 'f64.convert_i64_u'],
                ['f32.convert_i32_u', 'i32.trunc_sat_f32_u'], ['f32.demote_f64', 'f64.promote_f32'], ['i32.trunc_f32_s', 'f32.convert_i32_s'], ['f64.abs', 'f64.neg', 'f64.copysign@0'],
                ['f32.ceil', 'i32.trunc_sat_f32_s'], ['f64.nearest', 'i64.trunc_sat_f64_s'], ['f32.neg', 'f32.abs', 'i32.reinterpret_f32'], ['i64.extend_i32_s', 'f64.convert_i64_s', 'f64.floor'],
                ['f32.convert_i64_u', 'i64.trunc_sat_f32_u'], ['i64.trunc_f64_s', 'f32.convert_i64_s'], ['f64.trunc', 'i32.trunc_f64_u'], ['f32.copysign@0', 'f32.floor']]


def float_chain(k):
    ch = FLOAT_CHAINS[k]
    first = ch[0].split('@')[0]
    ps = SIG[first][0]
    body = [('local.get', i) for i in range(len(ps))] if '@' not in ch[0] else [('local.get', 0)]
    params = list(ps) if '@' not in ch[0] else [SIG[first][0][0]]
    t = None
    for op in ch:
        if '@' in op:
            base = op.split('@')[0]
            body += [('local.get', 0), (base,)]
            t = SIG[base][1]
        else:
            body += [(op,)]
            t = SIG[op][1]
    return Module(funcs=[Func(params, [t], [], body)], exports=[('f', 'func', 0)])
