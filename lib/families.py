"""families.py - generated program families (module ASTs) shared by the E2 checks."""
import random
from wasmenc import *
from refgen import SIG, TRAPPING

INT_OPS = sorted(n for n in SIG if n[0] == 'i' and all(t[0] == 'i' for t in SIG[n][0]) and (SIG[n][1] or 'i')[0] == 'i')
FLOAT_OPS = sorted(n for n in SIG if n not in INT_OPS)


def single_op(op):
    ps, r = SIG[op]
    body = [('local.get', i) for i in range(len(ps))] + [(op,)]
    return Module(funcs=[Func(ps, [r], [], body)], exports=[('f', 'func', 0)])


def _expr(rng, want, depth, params, ops):
    """random expression tree producing type `want`; leaves = params / constants"""
    if depth == 0 or rng.random() < 0.15:
        cands = [i for i, t in enumerate(params) if t == want]
        if cands and rng.random() < 0.8:
            return [('local.get', rng.choice(cands))]
        c = rng.choice([0, 1, 0xFFFFFFFF, 0x80000000, 31, 32, 33, 63, 64, 7, 0x7FFFFFFF, 0xFFFFFFFFFFFFFFFF,
                        0x8000000000000000, 255, 0x1234567])
        return [(want + '.const', c)]
    cands = [o for o in ops if SIG[o][1] == want]
    op = rng.choice(cands)
    out = []
    for t in SIG[op][0]:
        out += _expr(rng, t, depth - 1, params, ops)
    return out + [(op,)]


def nested_int(seed, k, depth=3, heavy_ok=True):
    """k-th nested integer expression program (deterministic in (seed,k))."""
    rng = random.Random(seed * 100003 + k)
    cheap = [o for o in INT_OPS if not any(x in o for x in ('mul', 'div', 'rem'))]
    heavy = [o for o in INT_OPS if any(x in o for x in ('div', 'rem', 'mul'))]
    params = [I32, I64, I32, I64]
    want = rng.choice([I32, I64])
    if heavy_ok and k % 3 == 0:
        # one mul/div/rem whose operands are built only from operators that the reference and w2c2_base.h
        # render identically (add sub and or xor, constants, parameters) so that the two multiplier/divider
        # terms stay aligned (DESIGN.md E2); the heavy result then feeds one more cheap operator.
        aligned = [o for o in cheap if o.split('.')[1] in ('add', 'sub', 'and', 'or', 'xor')]
        hop = rng.choice(heavy)
        ht = SIG[hop][1]
        body = []
        for t in SIG[hop][0]:
            body += _expr(rng, t, depth - 1, params, aligned)
        body += [(hop,)]
        wrap = rng.choice([o for o in cheap if SIG[o][0][0] == ht])
        for t in SIG[wrap][0][1:]:
            body += _expr(rng, t, 1, params, cheap)
        body += [(wrap,)]
        want = SIG[wrap][1]
    else:
        body = _expr(rng, want, depth, params, cheap)
    return Module(funcs=[Func(params, [want], [], body)], exports=[('f', 'func', 0)])
