import importlib, os, sys
sys.path.insert(0, os.path.dirname(os.path.abspath(__file__)))
sys.path.insert(0, os.path.join(os.path.dirname(os.path.abspath(__file__)), 'props'))
import core

def main():
    if len(sys.argv) < 3:
        print('usage: check <id> <quick|thorough>'); return 2
    prop, tier = sys.argv[1], sys.argv[2]
    tier = os.environ.get('VERIF_TIER', tier) if tier not in ('quick', 'thorough') else tier
    seed = int(os.environ.get('VERIF_SEED', '0') or 0)
    mod = importlib.import_module(prop.lower())
    return core.run_check(prop, tier, seed, mod.make_jobs, mod.LEVEL, mod.META)

if __name__ == '__main__':
    sys.exit(main())
