"""Minimal WebAssembly binary encoder (module AST -> bytes).  Stdlib only.

AST
---
Module(types=[(params, results)], imports=[Import], funcs=[Func], tables=[(min,max|None)],
       mems=[(min,max|None,shared)], globals=[Global], exports=[(name, kind, index)],
       start=None|idx, elems=[Elem], datas=[Data], customs=[(position, name, bytes)],
       names=None|{funcidx: name}, datacount=bool)

Value types are the strings 'i32','i64','f32','f64'.
Instructions are tuples: (mnemonic, *immediates); structured ones carry nested lists:
  ('block', bt, [body])  ('loop', bt, [body])  ('if', bt, [then], [else] or None)
bt is None or a value type string.
Memory instructions: (mnemonic, align_log2, offset).
Float constants carry *bit patterns* (ints): ('f32.const', bits32) ('f64.const', bits64).

`pad` argument of encode(): dict field-key -> number of redundant LEB128 bytes to add.
"""
import struct

I32, I64, F32, F64 = 'i32', 'i64', 'f32', 'f64'
VT = {'i32': 0x7F, 'i64': 0x7E, 'f32': 0x7D, 'f64': 0x7C}

# ---------------------------------------------------------------- LEB128

def uleb(v, pad=0, bits=32):
    assert v >= 0
    out = []
    while True:
        b = v & 0x7F
        v >>= 7
        if v:
            out.append(b | 0x80)
        else:
            out.append(b)
            break
    maxlen = (bits + 6) // 7
    pad = min(pad, maxlen - len(out))
    if pad > 0:
        out[-1] |= 0x80
        out += [0x80] * (pad - 1) + [0x00]
    return bytes(out)


def sleb(v, pad=0, bits=32):
    out = []
    while True:
        b = v & 0x7F
        v >>= 7
        if (v == 0 and not (b & 0x40)) or (v == -1 and (b & 0x40)):
            out.append(b)
            break
        out.append(b | 0x80)
    maxlen = (bits + 6) // 7
    pad = min(pad, maxlen - len(out))
    if pad > 0:
        fill = 0x7F if (out[-1] & 0x40) else 0x00
        out[-1] |= 0x80
        out += [fill | 0x80] * (pad - 1) + [fill]
    return bytes(out)


def s32(v):
    v &= 0xFFFFFFFF
    return v - (1 << 32) if v & 0x80000000 else v


def s64(v):
    v &= 0xFFFFFFFFFFFFFFFF
    return v - (1 << 64) if v & (1 << 63) else v

# ---------------------------------------------------------------- opcodes

OPS = {}

def _reg(names, start, prefix=None):
    for i, n in enumerate(names):
        if n:
            OPS[n] = (prefix, start + i)

_reg(['unreachable', 'nop', 'block', 'loop', 'if', 'else'], 0x00)
_reg(['end', 'br', 'br_if', 'br_table', 'return', 'call', 'call_indirect'], 0x0B)
_reg(['drop', 'select'], 0x1A)
_reg(['local.get', 'local.set', 'local.tee', 'global.get', 'global.set'], 0x20)
LOADS = ['i32.load', 'i64.load', 'f32.load', 'f64.load', 'i32.load8_s', 'i32.load8_u',
         'i32.load16_s', 'i32.load16_u', 'i64.load8_s', 'i64.load8_u', 'i64.load16_s',
         'i64.load16_u', 'i64.load32_s', 'i64.load32_u']
STORES = ['i32.store', 'i64.store', 'f32.store', 'f64.store', 'i32.store8', 'i32.store16',
          'i64.store8', 'i64.store16', 'i64.store32']
_reg(LOADS + STORES + ['memory.size', 'memory.grow', 'i32.const', 'i64.const', 'f32.const',
                       'f64.const'], 0x28)
_reg(['i32.eqz', 'i32.eq', 'i32.ne', 'i32.lt_s', 'i32.lt_u', 'i32.gt_s', 'i32.gt_u', 'i32.le_s',
      'i32.le_u', 'i32.ge_s', 'i32.ge_u',
      'i64.eqz', 'i64.eq', 'i64.ne', 'i64.lt_s', 'i64.lt_u', 'i64.gt_s', 'i64.gt_u', 'i64.le_s',
      'i64.le_u', 'i64.ge_s', 'i64.ge_u',
      'f32.eq', 'f32.ne', 'f32.lt', 'f32.gt', 'f32.le', 'f32.ge',
      'f64.eq', 'f64.ne', 'f64.lt', 'f64.gt', 'f64.le', 'f64.ge'], 0x45)
_INT_AR = ['clz', 'ctz', 'popcnt', 'add', 'sub', 'mul', 'div_s', 'div_u', 'rem_s', 'rem_u', 'and',
           'or', 'xor', 'shl', 'shr_s', 'shr_u', 'rotl', 'rotr']
_reg(['i32.' + n for n in _INT_AR], 0x67)
_reg(['i64.' + n for n in _INT_AR], 0x79)
_FL_AR = ['abs', 'neg', 'ceil', 'floor', 'trunc', 'nearest', 'sqrt', 'add', 'sub', 'mul', 'div',
          'min', 'max', 'copysign']
_reg(['f32.' + n for n in _FL_AR], 0x8B)
_reg(['f64.' + n for n in _FL_AR], 0x99)
_reg(['i32.wrap_i64', 'i32.trunc_f32_s', 'i32.trunc_f32_u', 'i32.trunc_f64_s', 'i32.trunc_f64_u',
      'i64.extend_i32_s', 'i64.extend_i32_u', 'i64.trunc_f32_s', 'i64.trunc_f32_u',
      'i64.trunc_f64_s', 'i64.trunc_f64_u', 'f32.convert_i32_s', 'f32.convert_i32_u',
      'f32.convert_i64_s', 'f32.convert_i64_u', 'f32.demote_f64', 'f64.convert_i32_s',
      'f64.convert_i32_u', 'f64.convert_i64_s', 'f64.convert_i64_u', 'f64.promote_f32',
      'i32.reinterpret_f32', 'i64.reinterpret_f64', 'f32.reinterpret_i32', 'f64.reinterpret_i64',
      'i32.extend8_s', 'i32.extend16_s', 'i64.extend8_s', 'i64.extend16_s', 'i64.extend32_s'],
     0xA7)
_reg(['i32.trunc_sat_f32_s', 'i32.trunc_sat_f32_u', 'i32.trunc_sat_f64_s', 'i32.trunc_sat_f64_u',
      'i64.trunc_sat_f32_s', 'i64.trunc_sat_f32_u', 'i64.trunc_sat_f64_s', 'i64.trunc_sat_f64_u',
      'memory.init', 'data.drop', 'memory.copy', 'memory.fill'], 0x00, 0xFC)
_reg(['memory.atomic.notify', 'memory.atomic.wait32', 'memory.atomic.wait64', 'atomic.fence'],
     0x00, 0xFE)
ATOMIC_LOADS = ['i32.atomic.load', 'i64.atomic.load', 'i32.atomic.load8_u', 'i32.atomic.load16_u',
                'i64.atomic.load8_u', 'i64.atomic.load16_u', 'i64.atomic.load32_u']
ATOMIC_STORES = ['i32.atomic.store', 'i64.atomic.store', 'i32.atomic.store8', 'i32.atomic.store16',
                 'i64.atomic.store8', 'i64.atomic.store16', 'i64.atomic.store32']
ATOMIC_RMW = []
for _op in ['add', 'sub', 'and', 'or', 'xor', 'xchg', 'cmpxchg']:
    ATOMIC_RMW += ['i32.atomic.rmw.' + _op, 'i64.atomic.rmw.' + _op,
                   'i32.atomic.rmw8.%s_u' % _op, 'i32.atomic.rmw16.%s_u' % _op,
                   'i64.atomic.rmw8.%s_u' % _op, 'i64.atomic.rmw16.%s_u' % _op,
                   'i64.atomic.rmw32.%s_u' % _op]
_reg(ATOMIC_LOADS + ATOMIC_STORES + ATOMIC_RMW, 0x10, 0xFE)

MEMARG_OPS = set(LOADS + STORES + ATOMIC_LOADS + ATOMIC_STORES + ATOMIC_RMW +
                 ['memory.atomic.notify', 'memory.atomic.wait32', 'memory.atomic.wait64'])

# natural alignment (log2) of memory instructions
def natural_align(op):
    import re
    m = re.search(r'(load|store|rmw)(\d+)', op)
    if m:
        return {'8': 0, '16': 1, '32': 2}[m.group(2)]
    if op.endswith('wait64'):
        return 3
    if op.endswith('wait32') or op.endswith('notify'):
        return 2
    return 3 if op[1:3] == '64' else 2

# ---------------------------------------------------------------- AST classes

class Func:
    def __init__(self, params, results, locals_, body, name=None):
        self.params, self.results, self.locals, self.body = list(params), list(results), list(locals_), body
        self.name = name

class Import:
    def __init__(self, module, name, kind, desc):
        # kind: 'func' desc=(params,results); 'table' desc=(min,max); 'memory' desc=(min,max,shared)
        # 'global' desc=(type, mutable)
        self.module, self.name, self.kind, self.desc = module, name, kind, desc

class Global:
    def __init__(self, type_, mutable, init):
        self.type, self.mutable, self.init = type_, mutable, init  # init = instruction tuple

class Elem:
    def __init__(self, offset, funcs, table=0):
        self.offset, self.funcs, self.table = offset, list(funcs), table  # offset = instr tuple

class Data:
    def __init__(self, offset, data, passive=False, flag2=False):
        self.offset, self.data, self.passive, self.flag2 = offset, bytes(data), passive, flag2

class Module:
    def __init__(self, **kw):
        self.types = kw.get('types')          # optional explicit type list; else derived
        self.imports = kw.get('imports', [])
        self.funcs = kw.get('funcs', [])
        self.tables = kw.get('tables', [])
        self.mems = kw.get('mems', [])
        self.globals = kw.get('globals', [])
        self.exports = kw.get('exports', [])
        self.start = kw.get('start')
        self.elems = kw.get('elems', [])
        self.datas = kw.get('datas', [])
        self.customs = kw.get('customs', [])  # (before_section_id or 'end', name, payload)
        self.names = kw.get('names')
        self.datacount = kw.get('datacount', False)
        self.extra_types = kw.get('extra_types', [])  # call_indirect signatures etc.

    # derived type table -----------------------------------------------------
    def type_table(self):
        if self.types is not None:
            return self.types
        tt = []
        def add(sig):
            sig = (tuple(sig[0]), tuple(sig[1]))
            if sig not in tt:
                tt.append(sig)
        for im in self.imports:
            if im.kind == 'func':
                add(im.desc)
        for f in self.funcs:
            add((f.params, f.results))
        for s in self.extra_types:
            add(s)
        return tt

    def type_index(self, sig):
        sig = (tuple(sig[0]), tuple(sig[1]))
        return self.type_table().index(sig)

    def imported(self, kind):
        return [im for im in self.imports if im.kind == kind]

    def func_sig(self, idx):
        imf = self.imported('func')
        if idx < len(imf):
            return (tuple(imf[idx].desc[0]), tuple(imf[idx].desc[1]))
        f = self.funcs[idx - len(imf)]
        return (tuple(f.params), tuple(f.results))

    def global_type(self, idx):
        img = self.imported('global')
        if idx < len(img):
            return img[idx].desc
        g = self.globals[idx - len(img)]
        return (g.type, g.mutable)

# ---------------------------------------------------------------- encoding

class Enc:
    def __init__(self, module, pad=None):
        self.m = module
        self.pad = pad or {}
        self.fields = []   # names of paddable fields encountered (for enumeration)

    def u(self, v, key, bits=32):
        self.fields.append(key)
        return uleb(v, self.pad.get(key, 0), bits)

    def s(self, v, key, bits=32):
        self.fields.append(key)
        return sleb(v, self.pad.get(key, 0), bits)

    def name(self, s, key):
        b = s if isinstance(s, bytes) else s.encode('utf-8')
        return self.u(len(b), key + '.len') + b

    def limits(self, mn, mx, shared=False, key='lim'):
        flag = (1 if mx is not None else 0) | (2 if shared else 0)
        out = bytes([flag]) + self.u(mn, key + '.min')
        if mx is not None:
            out += self.u(mx, key + '.max')
        return out

    def blocktype(self, bt):
        if bt is None:
            return b'\x40'
        return bytes([VT[bt]])

    def instr(self, ins, key):
        op = ins[0]
        m = self.m
        if op in ('block', 'loop'):
            return bytes([OPS[op][1]]) + self.blocktype(ins[1]) + self.body(ins[2], key) + b'\x0b'
        if op == 'if':
            out = b'\x04' + self.blocktype(ins[1]) + self.body(ins[2], key)
            if len(ins) > 3 and ins[3] is not None:
                out += b'\x05' + self.body(ins[3], key)
            return out + b'\x0b'
        prefix, code = OPS[op]
        if prefix is None:
            out = bytes([code])
        else:
            out = bytes([prefix]) + self.u(code, key + '.subop')
        if op in ('br', 'br_if', 'call', 'local.get', 'local.set', 'local.tee', 'global.get',
                  'global.set'):
            out += self.u(ins[1], key + '.' + op)
        elif op == 'br_table':
            out += self.u(len(ins[1]), key + '.brtable.n')
            for l in ins[1]:
                out += self.u(l, key + '.brtable.l')
            out += self.u(ins[2], key + '.brtable.d')
        elif op == 'call_indirect':
            # ins[1] = signature (params, results); ins[2] = table index
            out += self.u(m.type_index(ins[1]), key + '.ci.type') + self.u(ins[2] if len(ins) > 2 else 0, key + '.ci.table')
        elif op in MEMARG_OPS:
            out += self.u(ins[1], key + '.align') + self.u(ins[2], key + '.offset')
        elif op in ('memory.size', 'memory.grow'):
            out += b'\x00'
        elif op == 'i32.const':
            out += self.s(s32(ins[1]), key + '.i32c', 32)
        elif op == 'i64.const':
            out += self.s(s64(ins[1]), key + '.i64c', 64)
        elif op == 'f32.const':
            out += struct.pack('<I', ins[1] & 0xFFFFFFFF)
        elif op == 'f64.const':
            out += struct.pack('<Q', ins[1] & 0xFFFFFFFFFFFFFFFF)
        elif op == 'memory.init':
            out += self.u(ins[1], key + '.dataidx') + b'\x00'
        elif op == 'data.drop':
            out += self.u(ins[1], key + '.dataidx')
        elif op == 'memory.copy':
            out += b'\x00\x00'
        elif op == 'memory.fill':
            out += b'\x00'
        elif op == 'atomic.fence':
            out += b'\x00'
        return out

    def body(self, instrs, key):
        return b''.join(self.instr(i, key) for i in instrs)

    def constexpr(self, ins, key):
        return self.instr(ins, key) + b'\x0b'

    def section(self, sid, payload, key):
        return bytes([sid]) + self.u(len(payload), 'sec%d.size' % sid if key is None else key) + payload

    def vec(self, items, key):
        return self.u(len(items), key + '.count') + b''.join(items)

    def encode(self):
        m = self.m
        out = b'\x00asm\x01\x00\x00\x00'
        secs = {}
        tt = m.type_table()
        if tt:
            items = []
            for (p, r) in tt:
                items.append(b'\x60' + self.vec([bytes([VT[t]]) for t in p], 'type.params') +
                             self.vec([bytes([VT[t]]) for t in r], 'type.results'))
            secs[1] = self.vec(items, 'types')
        if m.imports:
            items = []
            for k, im in enumerate(m.imports):
                b = self.name(im.module, 'imp%d.mod' % k) + self.name(im.name, 'imp%d.name' % k)
                if im.kind == 'func':
                    b += b'\x00' + self.u(m.type_index(im.desc), 'imp%d.type' % k)
                elif im.kind == 'table':
                    b += b'\x01\x70' + self.limits(im.desc[0], im.desc[1], key='imp%d.tlim' % k)
                elif im.kind == 'memory':
                    b += b'\x02' + self.limits(im.desc[0], im.desc[1], len(im.desc) > 2 and im.desc[2], key='imp%d.mlim' % k)
                elif im.kind == 'global':
                    b += b'\x03' + bytes([VT[im.desc[0]], 1 if im.desc[1] else 0])
                items.append(b)
            secs[2] = self.vec(items, 'imports')
        if m.funcs:
            secs[3] = self.vec([self.u(m.type_index((f.params, f.results)), 'func%d.type' % k)
                                for k, f in enumerate(m.funcs)], 'funcs')
        if m.tables:
            secs[4] = self.vec([b'\x70' + self.limits(t[0], t[1], key='table%d' % k)
                                for k, t in enumerate(m.tables)], 'tables')
        if m.mems:
            secs[5] = self.vec([self.limits(t[0], t[1], len(t) > 2 and t[2], key='mem%d' % k)
                                for k, t in enumerate(m.mems)], 'mems')
        if m.globals:
            secs[6] = self.vec([bytes([VT[g.type], 1 if g.mutable else 0]) +
                                self.constexpr(g.init, 'glob%d.init' % k)
                                for k, g in enumerate(m.globals)], 'globals')
        if m.exports:
            kinds = {'func': 0, 'table': 1, 'memory': 2, 'global': 3}
            secs[7] = self.vec([self.name(n, 'exp%d.name' % k) + bytes([kinds[kd]]) +
                                self.u(ix, 'exp%d.index' % k)
                                for k, (n, kd, ix) in enumerate(m.exports)], 'exports')
        if m.start is not None:
            secs[8] = self.u(m.start, 'start.index')
        if m.elems:
            items = []
            for k, e in enumerate(m.elems):
                items.append(self.u(0, 'elem%d.flag' % k) + self.constexpr(e.offset, 'elem%d.off' % k) +
                             self.vec([self.u(f, 'elem%d.f' % k) for f in e.funcs], 'elem%d' % k))
            secs[9] = self.vec(items, 'elems')
        if m.datacount:
            secs[12] = self.u(len(m.datas), 'datacount')
        if m.funcs:
            items = []
            for k, f in enumerate(m.funcs):
                # run-length encode locals
                groups = []
                for t in f.locals:
                    if groups and groups[-1][1] == t:
                        groups[-1][0] += 1
                    else:
                        groups.append([1, t])
                if getattr(f, 'local_groups', None) is not None:
                    groups = [list(g) for g in f.local_groups]
                code = self.vec([self.u(n, 'code%d.localn' % k) + bytes([VT[t]]) for n, t in groups],
                                'code%d.locals' % k)
                code += self.body(f.body, 'code%d' % k) + b'\x0b'
                items.append(self.u(len(code), 'code%d.size' % k) + code)
            secs[10] = self.vec(items, 'codes')
        if m.datas:
            items = []
            for k, d in enumerate(m.datas):
                if d.passive:
                    b = self.u(1, 'data%d.flag' % k)
                elif d.flag2:
                    b = self.u(2, 'data%d.flag' % k) + self.u(0, 'data%d.mem' % k) + self.constexpr(d.offset, 'data%d.off' % k)
                else:
                    b = self.u(0, 'data%d.flag' % k) + self.constexpr(d.offset, 'data%d.off' % k)
                b += self.u(len(d.data), 'data%d.len' % k) + d.data
                items.append(b)
            secs[11] = self.vec(items, 'datas')
        # spec-equivalent spelling: absent vector sections written as present-but-empty (count 0)
        for sid in getattr(m, 'empty_sections', ()):
            if sid not in secs and sid in (1, 2, 4, 5, 6, 7, 9, 11) or (sid in (3, 10) and not m.funcs and sid not in secs):
                secs[sid] = self.u(0, 'empty%d.count' % sid)
        order = [1, 2, 3, 4, 5, 6, 7, 8, 9, 12, 10, 11]
        def customs_at(pos):
            b = b''
            for (where, nm, payload) in m.customs:
                if where == pos:
                    p = self.name(nm, 'custom.name') + payload
                    b += b'\x00' + self.u(len(p), 'custom.size') + p
            return b
        for sid in order:
            out += customs_at(sid)
            if sid in secs:
                out += self.section(sid, secs[sid], None)
        out += customs_at('end')
        if m.names:
            sub = self.vec([self.u(i, 'name.idx') + self.name(n, 'name.str') for i, n in sorted(m.names.items())], 'names')
            p = self.name('name', 'namesec.name') + b'\x01' + self.u(len(sub), 'namesec.subsize') + sub
            out += b'\x00' + self.u(len(p), 'namesec.size') + p
        return out


def encode(module, pad=None):
    return Enc(module, pad).encode()


def paddable_fields(module):
    e = Enc(module)
    e.encode()
    seen = []
    for f in e.fields:
        if f not in seen:
            seen.append(f)
    return seen
