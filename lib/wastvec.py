"""Oracle self-validation: the reference semantics (h/ref_ops.h) is run natively on the specification test vectors
that ship with the repository (tests/{i32,i64,f32,f64,f32_cmp,f64_cmp,f32_bitwise,f64_bitwise,conversions}.wast:
assert_return / assert_trap of single-instruction exports).  No wabt is available: the few S-expression forms these
files use are parsed here.  A disagreement means OUR oracle is wrong (BrokenMachinery), never a finding about w2c2.
"""
import os, re, struct, subprocess
from fractions import Fraction
from core import REPO, H, BrokenMachinery
from refgen import SIG

FILES = {'i32.wast': 'i32.', 'i64.wast': 'i64.', 'f32.wast': 'f32.', 'f64.wast': 'f64.', 'f32_cmp.wast': 'f32.', 'f64_cmp.wast': 'f64.',
         'f32_bitwise.wast': 'f32.', 'f64_bitwise.wast': 'f64.', 'conversions.wast': ''}
TRAPS = {'integer divide by zero': 2, 'integer overflow': 3, 'invalid conversion to integer': 4}


def _round_float(fr, mbits, ebits):
    """exact Fraction (>= 0) -> IEEE bits (round to nearest even)"""
    if fr == 0:
        return 0
    bias = (1 << (ebits - 1)) - 1
    # find e with 2^e <= fr < 2^(e+1)
    e = fr.numerator.bit_length() - fr.denominator.bit_length()
    if Fraction(2) ** e > fr:
        e -= 1
    if Fraction(2) ** (e + 1) <= fr:
        e += 1
    e = max(e, 1 - bias)                     # subnormal range shares the smallest exponent
    q = fr / (Fraction(2) ** (e - mbits))    # significand scaled to an integer grid
    n = q.numerator // q.denominator
    rem = q - n
    if rem > Fraction(1, 2) or (rem == Fraction(1, 2) and (n & 1)):
        n += 1
    if n >= (1 << (mbits + 1)):
        n >>= 1
        e += 1
    if n < (1 << mbits):                     # subnormal
        return n
    be = e + bias
    if be >= (1 << ebits) - 1:
        return ((1 << ebits) - 1) << mbits   # infinity
    return (be << mbits) | (n - (1 << mbits))


def parse_float(tok, bits):
    mbits, ebits = (23, 8) if bits == 32 else (52, 11)
    sign = 0
    t = tok.replace('_', '')
    if t[0] in '+-':
        sign = 1 if t[0] == '-' else 0
        t = t[1:]
    top = sign << (bits - 1)
    emax = ((1 << ebits) - 1) << mbits
    if t == 'inf':
        return top | emax
    if t == 'nan':
        return top | emax | (1 << (mbits - 1))
    if t.startswith('nan:0x'):
        return top | emax | int(t[6:], 16)
    if t.startswith('0x'):
        m = re.fullmatch(r'0x([0-9a-fA-F]*)\.?([0-9a-fA-F]*)(?:[pP]([+-]?\d+))?', t)
        ip, fp, ex = m.group(1) or '0', m.group(2) or '', int(m.group(3) or 0)
        fr = Fraction(int(ip + fp, 16), 16 ** len(fp)) * Fraction(2) ** ex
    else:
        m = re.fullmatch(r'(\d*)\.?(\d*)(?:[eE]([+-]?\d+))?', t)
        ip, fp, ex = m.group(1) or '0', m.group(2) or '', int(m.group(3) or 0)
        fr = Fraction(int(ip + fp), 10 ** len(fp)) * Fraction(10) ** ex
    return top | _round_float(fr, mbits, ebits)


def parse_const(ty, tok):
    """-> (bits, kind) kind: 'v' value, 'nc' nan:canonical, 'na' nan:arithmetic"""
    if ty in ('i32', 'i64'):
        n = 32 if ty == 'i32' else 64
        return int(tok.replace('_', ''), 0) & ((1 << n) - 1), 'v'
    if tok == 'nan:canonical':
        return 0, 'nc'
    if tok == 'nan:arithmetic':
        return 0, 'na'
    return parse_float(tok, 32 if ty == 'f32' else 64), 'v'


CONST = r'\((i32|i64|f32|f64)\.const\s+([^\s)]+)\)'
RE_RET = re.compile(r'^\(assert_return \(invoke "([^"]+)"((?:\s*' + CONST + r')*)\)\s*' + CONST + r'\)\s*$')
RE_TRAP = re.compile(r'^\(assert_trap \(invoke "([^"]+)"((?:\s*' + CONST + r')*)\)\s*"([^"]+)"\)\s*$')


def vectors():
    out = []
    skipped = 0
    for fn, prefix in FILES.items():
        p = os.path.join(REPO, 'tests', fn)
        if not os.path.exists(p):
            continue
        for line in open(p):
            line = line.strip()
            m = RE_RET.match(line)
            trap = None
            if m:
                exp = parse_const(m.group(m.lastindex - 1), m.group(m.lastindex))
                expty = m.group(m.lastindex - 1)
            else:
                m = RE_TRAP.match(line)
                if not m:
                    continue
                trap = TRAPS.get(m.group(m.lastindex))
                if trap is None:
                    skipped += 1
                    continue
                exp, expty = (0, 'v'), None
            op = prefix + m.group(1) if prefix else m.group(1)
            if op not in SIG:
                skipped += 1
                continue
            args = [parse_const(t, v)[0] for (t, v) in re.findall(CONST, m.group(2))]
            ps, rs = SIG[op]
            if len(args) != len(ps) or (expty is not None and expty != rs):
                skipped += 1
                continue
            out.append((op, args, exp, trap, fn))
    return out, skipped


def run_selftest(ctx, ops_filter=None):
    """returns dict for evidence; raises BrokenMachinery on any disagreement"""
    vecs, skipped = vectors()
    if ops_filter is not None:
        vecs = [v for v in vecs if ops_filter(v[0])]
    ops = sorted(set(v[0] for v in vecs))
    d = ctx.dir('oracle_selftest')
    src = os.path.join(d, 'selftest.c')
    ctype = {'i32': 'r32', 'f32': 'r32', 'i64': 'r64', 'f64': 'r64'}
    with open(src, 'w') as f:
        f.write('#include <stdio.h>\n#include <stdint.h>\n#include <string.h>\n#include <math.h>\n#include "ref_ops.h"\n')
        f.write('typedef struct { int op; uint64_t a, b, exp; int kind, trap; } V;\nstatic const V vs[] = {\n')
        for (op, args, (eb, ek), trap, fn) in vecs:
            a = args + [0, 0]
            f.write('{%d,0x%xull,0x%xull,0x%xull,%d,%d},\n' % (ops.index(op), a[0], a[1], eb, {'v': 0, 'nc': 1, 'na': 2}[ek], trap or 0))
        f.write('};\nstatic const char* names[] = {%s};\n' % ','.join('"%s"' % o for o in ops))
        f.write('int main(void) { unsigned k; int bad = 0; for (k = 0; k < sizeof vs / sizeof vs[0]; k++) { const V* v = &vs[k]; uint64_t r = 0; int isf32 = 0, isf64 = 0; R_trap = 0;\n  switch (v->op) {\n')
        for i, op in enumerate(ops):
            ps, rs = SIG[op]
            call = 'r_%s(%s)' % (op.replace('.', '_'), ', '.join('(%s)v->%s' % (ctype[t], 'ab'[j]) for j, t in enumerate(ps)))
            f.write('  case %d: r = (uint64_t)%s; %s break;\n' % (i, call, 'isf32 = 1;' if rs == 'f32' else ('isf64 = 1;' if rs == 'f64' else '')))
        f.write('  }\n  if (v->trap) { if (R_trap != v->trap) { bad++; printf("MISMATCH %s(%llx,%llx): expected trap %d got trap %d\\n", names[v->op], (unsigned long long)v->a, (unsigned long long)v->b, v->trap, R_trap); } continue; }\n')
        f.write('  if (R_trap) { bad++; printf("MISMATCH %s(%llx,%llx): unexpected trap %d\\n", names[v->op], (unsigned long long)v->a, (unsigned long long)v->b, R_trap); continue; }\n')
        f.write('  if (v->kind == 0) { if (r != v->exp) { bad++; printf("MISMATCH %s(%llx,%llx): expected %llx got %llx\\n", names[v->op], (unsigned long long)v->a, (unsigned long long)v->b, (unsigned long long)v->exp, (unsigned long long)r); } }\n')
        f.write('  else { int nan = isf32 ? r_f32_isnan((r32)r) : r_f64_isnan(r); uint64_t q = isf32 ? 0x400000ull : 0x8000000000000ull; uint64_t mm = isf32 ? 0x7FFFFFull : 0xFFFFFFFFFFFFFull;\n')
        f.write('    int ok = nan && (v->kind == 1 ? ((r & mm) == q) : ((r & q) != 0)); (void)isf64; if (!ok) { bad++; printf("MISMATCH %s(%llx,%llx): expected nan kind %d got %llx\\n", names[v->op], (unsigned long long)v->a, (unsigned long long)v->b, v->kind, (unsigned long long)r); } }\n')
        f.write(' }\n printf("DONE %u vectors, %d mismatches\\n", (unsigned)(sizeof vs / sizeof vs[0]), bad); return bad != 0; }\n')
    exe = os.path.join(d, 'selftest')
    r = subprocess.run(['gcc', '-O1', '-w', '-ffp-contract=off', '-I', H, src, '-o', exe, '-lm'], capture_output=True, text=True)
    if r.returncode != 0:
        raise BrokenMachinery('oracle self-test does not build: ' + r.stderr[-500:])
    r = subprocess.run([exe], capture_output=True, text=True)
    if r.returncode != 0 or 'DONE' not in r.stdout:
        raise BrokenMachinery('reference semantics (ref_ops.h) disagrees with the specification test vectors of /repo/tests: ' + r.stdout[:1500])
    return {'oracle_selftest_vectors': len(vecs), 'oracle_selftest_ops': len(ops), 'oracle_selftest_skipped_lines': skipped,
            'oracle_selftest': 'h/ref_ops.h compiled natively and run on the assert_return/assert_trap vectors of /repo/tests/{i32,i64,f32,f64,*_cmp,*_bitwise,conversions}.wast: all agree'}
