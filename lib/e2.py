"""e2.py - translation validation pipeline: module AST -> .wasm -> real w2c2 -> emitted C + harness -> Job."""
import os, re, subprocess, shutil, json
from core import Job, REPO, H, BrokenMachinery, log
import wasmenc
from refgen import Harness


def translate(ctx, d, wasm_bytes, opts=(), out='m.c', translator=None, timeout=60):
    """Run the real translator (built from /repo's working tree) in directory d."""
    os.makedirs(d, exist_ok=True)
    with open(os.path.join(d, 'm.wasm'), 'wb') as f:
        f.write(wasm_bytes)
    tr = translator or ctx.translator()
    cmd = [tr] + list(opts) + ['m.wasm', out]
    try:
        r = subprocess.run(cmd, cwd=d, capture_output=True, text=True, timeout=timeout)
    except subprocess.TimeoutExpired:
        return None, 'translator timed out: ' + ' '.join(cmd)
    if r.returncode != 0:
        return None, 'translator exit status %d: %s | %s' % (r.returncode, ' '.join(cmd), (r.stderr or '')[-400:])
    files = sorted(f for f in os.listdir(d) if f.endswith('.c') and f != 'h.c')
    return files, (r.stderr or '')


def module_has_float(m):
    def instrs(body):
        for ins in body:
            yield ins
            if ins[0] in ('block', 'loop'):
                yield from instrs(ins[2])
            elif ins[0] == 'if':
                yield from instrs(ins[2])
                if len(ins) > 3 and ins[3]:
                    yield from instrs(ins[3])
    for f in m.funcs:
        if any(t[0] == 'f' for t in list(f.params) + list(f.results) + list(f.locals)):
            return True
        for ins in instrs(f.body):
            if ins[0][0] == 'f' or '_f32' in ins[0] or '_f64' in ins[0] or (ins[0] in ('block', 'loop', 'if') and ins[1] and ins[1][0] == 'f'):
                return True
    for im in m.imports:
        if im.kind == 'global' and im.desc[0][0] == 'f':
            return True
        if im.kind == 'func' and any(t[0] == 'f' for t in list(im.desc[0]) + list(im.desc[1])):
            return True
    return any(g.type[0] == 'f' for g in m.globals)


def e2_job(ctx, name, module, script, opts=(), harness_kw=None, backends=('z3',), unwind=70, timeout=None,
           group=None, extra_flags=(), sample=None, translator=None, extra_sources=(), ub_checks=False,
           pad=None, wasm_bytes=None, witnesses=('end of script',), page=None, extra_defs=(), validate_witness=False):
    """Returns Job, or a dict {'pre_violation': ...} when the translator itself fails."""
    d = ctx.dir('e2_' + name)
    wb = wasm_bytes if wasm_bytes is not None else wasmenc.encode(module, pad)
    files, err = translate(ctx, d, wb, opts, translator=translator)
    if files is None:
        return {'pre_violation': True, 'name': name, 'desc': 'translator fails on a valid module: ' + err, 'dir': d,
                'group': group or name}
    # external data-segment modes (-d gnu-ld): the linker would provide _binary_datasegments_start from the emitted
    # 'datasegments' file; here the same bytes are supplied as a C array so that the emitted code can be linked
    blob = os.path.join(d, 'datasegments')
    if os.path.exists(blob):
        data = open(blob, 'rb').read()
        with open(os.path.join(d, 'dsblob.c'), 'w') as f:
            f.write('#include "w2c2_base.h"\nU8 _binary_datasegments_start[%d] = {%s};\n' % (max(1, len(data)), ','.join(str(b) for b in data) or '0'))
        if 'dsblob.c' not in files:
            files.append('dsblob.c')
    hk = dict(harness_kw or {})
    if '-m' in opts:
        hk['prefix'] = True
    defs = ['-DW2C2_VERIF=1'] + list(extra_defs)
    if page:
        hk['page'] = page
        defs.append('-DW2C2_VERIF_PAGE_SIZE=%d' % page)
    h = Harness(module, 'm', script, **hk)
    src = h.gen_main()
    # SMT-LIB FloatingPoint has a single NaN: back ends that use the FP theory (cvc5) cannot decide
    # NaN-payload preservation and would return spurious counterexamples; keep them only where the
    # comparison is NaN-class based (arithmetic NaN results are not bit-determined by the spec).
    if module_has_float(module) and not h.rg.uses_nan_nondet:
        backends = [b for b in backends if b != 'cvc5'] or ['sat']
    with open(os.path.join(d, 'h.c'), 'w') as f:
        f.write(src)
    sources = [os.path.join(d, 'h.c')] + [os.path.join(d, f) for f in files] + list(extra_sources)
    flags = ['--no-malloc-may-fail', '--object-bits', '12'] + list(extra_flags)
    acf = None
    ign = []
    if ub_checks:
        # undefined-behaviour instrumentation; counted only for the emitted C and the runtime header
        flags += ['--signed-overflow-check', '--undefined-shift-check', '--pointer-overflow-check', '--div-by-zero-check',
                  '--bounds-check']
        acf = [os.path.basename(f) for f in files] + ['w2c2_base.h', 'm.h']
        # CBMC's --conversion-check is not used: its float->signed lower bound is imprecise where MIN-1 is not
        # representable (it flags (I32)(-2147483648.0f), which is defined); out-of-range float->int casts are
        # excluded by C02's exact trap/clamp boundary equivalence instead.
        ign = []
    # compile gate (concrete): every emitted file must be accepted by a C compiler on its own against the generated
    # header; a valid module for which the translator emits C that does not compile is reported as a violation
    # instead of an (inconclusive) CBMC front-end error
    gate_incs = ['-I', os.path.join(REPO, 'w2c2'), '-I', d]
    for fn in files:
        if fn == 'dsblob.c' or not fn.endswith('.c'):
            continue
        r = subprocess.run(['gcc', '-fsyntax-only', '-w'] + gate_incs + defs + [os.path.join(d, fn)], capture_output=True, text=True,
                           env=dict(os.environ, LC_ALL='C'))
        if r.returncode != 0:
            mm = re.search(r'error: ([^\n]*)', r.stderr)
            return {'pre_violation': True, 'name': 'compile_' + name, 'dir': d, 'group': group or name,
                    'desc': 'options %s: emitted file %s does not compile on its own against the generated header: %s'
                            % (' '.join(opts), fn, mm.group(1) if mm else r.stderr[-200:])}
    smp = dict(sample or {})
    smp.setdefault('program', name)
    smp.setdefault('w2c2_options', list(opts))
    smp.setdefault('wasm_hex', wb.hex() if len(wb) <= 160 else wb[:160].hex() + '...')
    smp.setdefault('script', script)
    j = Job(name, sources, incs=[os.path.join(REPO, 'w2c2'), d], defs=defs, flags=flags, backends=backends,
               unwind=unwind, timeout=timeout, group=group or name, sample=smp, witnesses=witnesses, auto_check_files=acf, ignore_desc=ign,
               replay=dict(sources=sources, incs=[os.path.join(REPO, 'w2c2'), d], defs=defs, asan=ub_checks))
    j.validate_witness = validate_witness
    return j
