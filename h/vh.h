/* vh.h - common harness prelude.  One source, two builds:
 *   - under CBMC: nd*() are nondeterministic, V_ASSERT/V_ASSUME are __CPROVER_assert/assume,
 *     V_WITNESS(d) is an assertion that MUST be reported FAILED (reachability witness);
 *   - natively with -DREPLAY: nd*() read the counterexample vector (one hex value per line,
 *     in call order, extracted from `cbmc --trace`), V_ASSERT prints and exits 1,
 *     V_ASSUME exits 77 (the vector does not satisfy the assumption = replay mismatch).
 */
#ifndef VH_H
#define VH_H
#include <stdint.h>
#include <stddef.h>

#ifdef REPLAY
#include <stdio.h>
#include <stdlib.h>
static FILE* vh_in;
static unsigned long long vh_next(void) {
    unsigned long long v = 0;
    if (!vh_in) {
        const char* p = getenv("VH_INPUT");
        vh_in = fopen(p ? p : "inputs.txt", "r");
        if (!vh_in) { fprintf(stderr, "REPLAY: no input vector\n"); _Exit(78); }
    }
    if (fscanf(vh_in, "%llx", &v) != 1) { v = 0; }
    return v;
}
static uint8_t nd8(void) { uint8_t v = (uint8_t)vh_next(); return v; }
static uint16_t nd16(void) { uint16_t v = (uint16_t)vh_next(); return v; }
static uint32_t nd32(void) { uint32_t v = (uint32_t)vh_next(); return v; }
static uint64_t nd64(void) { uint64_t v = (uint64_t)vh_next(); return v; }
#define V_ASSERT(c, d) do { if (!(c)) { printf("REPLAY-ASSERT-FAIL: %s\n", d); fflush(stdout); _Exit(1); } } while (0)
#define V_ASSUME(c) do { if (!(c)) { printf("REPLAY-ASSUME-FAIL: %s\n", #c); fflush(stdout); _Exit(77); } } while (0)
#define V_WITNESS(d) do { } while (0)
#define V_STOP() do { fflush(stdout); _Exit(0); } while (0)
#ifndef VH_NO_MAIN
void harness(void);
int main(void) { harness(); printf("REPLAY-END: harness returned without a failed assertion\n"); return 0; }
#endif
#else
uint8_t nondet_u8(void);
uint16_t nondet_u16(void);
uint32_t nondet_u32(void);
uint64_t nondet_u64(void);
static uint8_t nd8(void) { uint8_t v = nondet_u8(); return v; }
static uint16_t nd16(void) { uint16_t v = nondet_u16(); return v; }
static uint32_t nd32(void) { uint32_t v = nondet_u32(); return v; }
static uint64_t nd64(void) { uint64_t v = nondet_u64(); return v; }
#define V_ASSERT(c, d) __CPROVER_assert((c), d)
#define V_ASSUME(c) __CPROVER_assume(c)
#define V_WITNESS(d) __CPROVER_assert(0, "WITNESS " d)
#define V_STOP() __CPROVER_assume(0)
#endif

#endif
