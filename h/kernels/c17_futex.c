/* C17: wait/notify protocol of the real futex/futex.c + list.c + map.c under a sequentialised scheduler.
 * Threading primitives are supplied here; every blocking primitive is a yield point at which a
 * nondeterministically chosen set of not-yet-started agents runs (nested / LIFO schedules, DESIGN.md E3). */
#include "vh.h"
#include <stddef.h>
#include <pthread.h>
#include <errno.h>
#include <time.h>

#ifndef NA
#define NA 2
#endif
#ifndef SC
#define SC 0
#endif
enum { K_WAIT, K_NOTIFY, K_STORE_NOTIFY };   /* K_STORE_NOTIFY: change the cell, then notify (the canonical wake-up idiom) */
typedef struct { int kind; uint32_t addr; uint64_t expect; int64_t timeout; int wait64; uint32_t count;
                 int started, done, stored; uint32_t ret; int blocked, ever_blocked; pthread_cond_t* cond; int tokens; int spurious_left; } Agent;
static Agent A[NA]; static int cur = -1; static int mutex_held; static int nstarted_total;
static int pending_wakes[2];         /* per address slot (0 / 16): notify results not yet consumed by a waiter returning 0 */
static int aslot(uint32_t a) { return a == 0 ? 0 : 1; }
static void run_agent_0(void); static void run_agent_1(void);
#if NA > 2
static void run_agent_2(void);
#endif
static int waiter_status_notified(pthread_cond_t* c);

int pthread_mutex_init(pthread_mutex_t* m, const pthread_mutexattr_t* a) { (void)m; (void)a; return 0; }
int pthread_mutex_destroy(pthread_mutex_t* m) { (void)m; return 0; }
static void run_others(void);
#if SC >= 6
/* in the store+notify scenarios a request for the mutex is a yield point as well: other agents may run (to completion or
   until they block) between whatever the caller did before asking for the mutex and its critical section */
#define LOCK_YIELD() do { int me_ = cur; run_others(); cur = me_; V_ASSERT(!mutex_held, "mutex is free again when the scheduler returns to a lock request"); } while (0)
#else
#define LOCK_YIELD() do { } while (0)
#endif
int pthread_mutex_lock(pthread_mutex_t* m) { (void)m; V_ASSERT(!mutex_held, "mutex is never requested while held (no self-deadlock)"); LOCK_YIELD(); mutex_held = 1; return 0; }
int pthread_mutex_unlock(pthread_mutex_t* m) { (void)m; V_ASSERT(mutex_held, "mutex is only released by its holder"); mutex_held = 0; return 0; }
int pthread_cond_init(pthread_cond_t* c, const pthread_condattr_t* a) { (void)c; (void)a; return 0; }
int pthread_cond_destroy(pthread_cond_t* c) { int k; for (k = 0; k < NA; k++) V_ASSERT(!(A[k].blocked && A[k].cond == c), "condition variable is not destroyed while a waiter blocks on it"); return 0; }
int pthread_cond_signal(pthread_cond_t* c) { int k; V_ASSERT(mutex_held, "signal is sent under the mutex");
    for (k = 0; k < NA; k++) if (A[k].blocked && A[k].cond == c) { A[k].tokens++; } return 0; }
int clock_gettime(clockid_t id, struct timespec* ts) { (void)id; ts->tv_sec = (time_t)(nd32() & 0xFFFF); ts->tv_nsec = (long)(nd32() & 0xFFFFFF); return 0; }

/* agents are started through concrete indices and their kinds are compile-time constants of the scenario: a symbolic
   index or kind makes every start site recurse to the bound.  The order in which eligible agents are offered a start
   is itself a schedule choice. */
static void run_others(void) {
    if (nd8() & 1) {
        if (!A[0].started && (nd8() & 1)) run_agent_0();
        if (!A[1].started && (nd8() & 1)) run_agent_1();
#if NA > 2
        if (!A[2].started && (nd8() & 1)) run_agent_2();
#endif
    } else {
#if NA > 2
        if (!A[2].started && (nd8() & 1)) run_agent_2();
#endif
        if (!A[1].started && (nd8() & 1)) run_agent_1();
        if (!A[0].started && (nd8() & 1)) run_agent_0();
    } }

static int block(pthread_cond_t* c, int timed) { int me = cur; int woke = 0;
    V_ASSERT(mutex_held, "condition wait is entered with the mutex held");
    A[me].cond = c; A[me].blocked = 1; A[me].ever_blocked = 1; mutex_held = 0;
    run_others();
    V_ASSERT(!mutex_held, "mutex is free when the waiter re-acquires it");
    if (timed && (nd8() & 1)) { mutex_held = 1; A[me].blocked = 0; cur = me; return ETIMEDOUT; }   /* the deadline may pass at any time, also after a signal */
    if (A[me].tokens > 0) { A[me].tokens--; woke = 1; }
    else if (A[me].spurious_left > 0 && (nd8() & 1)) { A[me].spurious_left--; woke = 1; }
    if (!woke) { int k2; V_ASSERT(!waiter_status_notified(c), "a waiter that was marked notified always has a pending wake-up (no lost wake-up)");
        /* this waiter compared the cell before the store (otherwise it would have returned 1), so the notify that followed
           the store came after the comparison: it must have found the waiter unless it had already woken as many as it asked for */
        for (k2 = 0; k2 < NA; k2++) if (A[k2].kind == K_STORE_NOTIFY && A[k2].done && A[k2].addr == A[me].addr)
            V_ASSERT(A[k2].ret >= A[k2].count, "a waiter whose comparison preceded a store is visible to the notify that follows the store (comparison and enqueueing are one atomic step: no lost wake-up)");
        V_STOP();  /* nothing in this schedule can wake the agent: an infinite wait, cut here */
#ifndef REPLAY
        while (1) { }
#endif
    }
    mutex_held = 1; A[me].blocked = 0; cur = me; return 0; }
int pthread_cond_wait(pthread_cond_t* c, pthread_mutex_t* m) { (void)m; return block(c, 0); }
int pthread_cond_timedwait(pthread_cond_t* c, pthread_mutex_t* m, const struct timespec* t) { (void)m; (void)t; return block(c, 1); }

#include "w2c2_base.h"
static int trapped;
void trap(Trap t) { (void)t; trapped = 1; V_ASSERT(0, "no trap in the wait/notify protocol (allocation failure is out of scope)"); V_STOP();
#ifndef REPLAY
    while (1) { }
#endif
}
#include "list.c"
#include "map.c"
#include "futex.c"

static int waiter_status_notified(pthread_cond_t* c) { Wait* w = (Wait*)((char*)c - offsetof(Wait, cond)); return w->status == waitStatusNotified; }

#define CELLS 32
static U8 cells[CELLS]; static wasmMemory mem;
static uint64_t cell(uint32_t addr, int w64) { uint64_t v = 0; int k; for (k = 0; k < 8; k++) if (k < (w64 ? 8 : 4)) v |= ((uint64_t)cells[addr + k]) << (8 * k); return v; }

static int blocked_on(uint32_t addr) { int k, n = 0; for (k = 0; k < NA; k++) if (A[k].kind == K_WAIT && A[k].blocked && A[k].addr == addr) n++; return n; }

static void run_wait(Agent* a) {
        int differs = a->wait64 ? cell(a->addr, 1) != a->expect : (uint32_t)cell(a->addr, 0) != (uint32_t)a->expect;
        a->ret = wasmMemoryAtomicWait(&mem, a->addr, a->expect, a->timeout, a->wait64 != 0);
        V_ASSERT(!mutex_held, "wait returns with the mutex released");
#if SC >= 6
        { int k2, st = 0; for (k2 = 0; k2 < NA; k2++) if (A[k2].kind == K_STORE_NOTIFY && A[k2].stored && A[k2].addr == a->addr) st = 1;
          V_ASSERT(!differs || a->ret == 1, "wait returns 1 when the cell differs from the expected value from the start");
          V_ASSERT(a->ret != 1 || differs || st, "wait returns 1 only if the cell differed at some time"); }
#else
        V_ASSERT((a->ret == 1) == (differs != 0), "wait returns 1 (not-equal) exactly when the cell differs from the expected value");
#endif
        if (a->ret == 1) V_ASSERT(!a->ever_blocked, "a not-equal wait never blocks");
        else { V_ASSERT(a->ret == 0 || a->ret == 2, "wait returns 0, 1 or 2");
            if (a->ret == 0) { V_ASSERT(pending_wakes[aslot(a->addr)] > 0, "a waiter returns 0 only if a notify on its address counted it (no cross-address wake, counted at most once)"); pending_wakes[aslot(a->addr)]--; }
            else V_ASSERT(a->timeout >= 0, "timed-out only for a finite timeout"); } }
static void run_notify(Agent* a) {
        int visible = blocked_on(a->addr) - pending_wakes[aslot(a->addr)];
        uint32_t want = a->count < (uint32_t)visible ? a->count : (uint32_t)visible;
        a->ret = wasmMemoryAtomicNotify(&mem, a->addr, a->count);
        V_ASSERT(!mutex_held, "notify returns with the mutex released");
        V_ASSERT(a->ret == want, "notify returns min(count, waiters blocked on that address and not yet counted): started waiters are visible, at most count are woken");
        pending_wakes[aslot(a->addr)] += (int)a->ret; }
static void run_store_notify(Agent* a) {
        cells[a->addr] ^= 0x5A; a->stored = 1;       /* the cell now differs from what it was (first byte changed: visible to 32- and 64-bit waits) */
        a->ret = wasmMemoryAtomicNotify(&mem, a->addr, a->count);
        V_ASSERT(!mutex_held, "notify returns with the mutex released");
        V_ASSERT(a->ret <= a->count && (int)a->ret <= blocked_on(a->addr) + NA, "notify wakes at most the requested number");
        pending_wakes[aslot(a->addr)] += (int)a->ret; }
/* scenario table: kind of agent k */
#if SC == 6
#define KIND0 K_WAIT
#define KIND1 K_STORE_NOTIFY
#define KIND2 K_STORE_NOTIFY
#elif SC == 7
#define KIND0 K_WAIT
#define KIND1 K_WAIT
#define KIND2 K_STORE_NOTIFY
#elif SC == 0 || SC == 1
#define KIND0 K_WAIT
#define KIND1 K_NOTIFY
#define KIND2 K_NOTIFY
#elif SC == 3
#define KIND0 K_WAIT
#define KIND1 K_NOTIFY
#define KIND2 K_NOTIFY
#else
#define KIND0 K_WAIT
#define KIND1 K_WAIT
#define KIND2 K_NOTIFY
#endif
#define RUN_AGENT(k, KIND) static void run_agent_##k(void) { int saved = cur; cur = k; A[k].started = 1; nstarted_total++; \
    if (KIND == K_WAIT) run_wait(&A[k]); else if (KIND == K_NOTIFY) run_notify(&A[k]); else run_store_notify(&A[k]); A[k].done = 1; cur = saved; }
RUN_AGENT(0, KIND0)
RUN_AGENT(1, KIND1)
#if NA > 2
RUN_AGENT(2, KIND2)
#endif

static uint32_t pick_addr(void) { return (nd8() & 1) ? 16u : 0u; }

void harness(void) { int k;
    for (k = 0; k < CELLS; k++) cells[k] = nd8();
    mem.data = cells; mem.size = CELLS; mem.pages = 1; mem.maxPages = 1; mem.shared = true;
    /* scenario: fixed agent kinds, symbolic parameters */
    for (k = 0; k < NA; k++) { A[k].addr = pick_addr(); A[k].expect = nd64(); A[k].wait64 = nd8() & 1; A[k].count = nd8() % 3; A[k].timeout = -1; A[k].spurious_left = 1; }
    A[0].kind = KIND0; A[1].kind = KIND1;
#if NA > 2
    A[2].kind = KIND2;
#endif
#if SC == 1 || SC == 5    /* first waiter is timed */
    A[0].timeout = (int64_t)(nd32() & 0x7FFFFFFF);
#endif
#if SC >= 6               /* waiters expect the value the cell holds at the start; everybody uses one address; the store+notify asks for >= 1 */
    for (k = 0; k < NA; k++) { A[k].addr = A[0].addr; A[k].wait64 = A[0].wait64; A[k].expect = cell(A[0].addr, A[0].wait64); if (A[k].count == 0) A[k].count = 1; }
    if (nd8() & 1) A[0].timeout = (int64_t)(nd32() & 0x7FFFFFFF);
#endif
#if SC == 4               /* two addresses in the same bucket */
    A[0].addr = 0; A[1].addr = 16;
#endif
    /* top level: start every agent that has not been started from inside a wait, in either index order */
    if (nd8() & 1) { if (!A[0].started) run_agent_0(); if (!A[1].started) run_agent_1();
#if NA > 2
        if (!A[2].started) run_agent_2();
#endif
    } else {
#if NA > 2
        if (!A[2].started) run_agent_2();
#endif
        if (!A[1].started) run_agent_1(); if (!A[0].started) run_agent_0(); }
    for (k = 0; k < NA; k++) V_ASSERT(A[k].done, "every started agent terminates");
    V_ASSERT(pending_wakes[0] == 0 && pending_wakes[1] == 0, "the sum of the notify results equals the number of waiters that returned 0");
    if (mem.futex) { Map* mp = (Map*)mem.futex; size_t b; for (b = 0; b < 4; b++) if (b < mp->bucketCount) V_ASSERT(mp->buckets[b] == NULL, "no wait list is left behind once every waiter has returned"); }
    { int w0 = 0; for (k = 0; k < NA; k++) if (A[k].kind == K_WAIT && A[k].ret == 0) w0++; if (w0 > 0) V_WITNESS("a waiter was woken by a notify"); }
    { int w2 = 0; for (k = 0; k < NA; k++) if (A[k].kind == K_WAIT && A[k].ret == 2) w2++; if (w2 > 0) V_WITNESS("a waiter timed out"); }
    V_WITNESS("end"); }
