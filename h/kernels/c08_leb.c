/* C08 kernel: LEB128 readers against the specification decoder, complete domain. */
#include "vh.h"
#include "leb128.h"
void trap(Trap t) { (void)t; V_STOP(); }

/* specification decoder (binary format, values): returns number of bytes or 0 if the prefix is not a valid encoding of N bits */
static int spec_leb(const U8* b, size_t len, int bits, int is_signed, U64* out) {
    int maxn = (bits + 6) / 7, n = 0; U64 v = 0; int done = 0, k; U8 last = 0;
    for (k = 0; k < 10; k++) { if (k < maxn && !done) { if ((size_t)k >= len) return 0; last = b[k]; v |= ((U64)(last & 0x7F)) << (7 * k); n++; if (!(last & 0x80)) done = 1; } }
    if (!done) return 0;
    if (n == maxn) { int used = bits - 7 * (maxn - 1); U8 unused = (U8)(0x7F & ~((1u << used) - 1));
        if (!is_signed) { if (last & unused) return 0; }
        else { int sign = (last >> (used - 1)) & 1; if ((last & unused) != (sign ? unused : 0)) return 0; } }
    if (is_signed) { int sb = 7 * n - 1; if (n < maxn || bits == 64 || 1) { if (sb < 63 && ((v >> sb) & 1)) v |= ~(U64)0 << (sb + 1); } }
    if (bits == 32) v &= 0xFFFFFFFFull;
    *out = v; return n; }

#define LEBH(NAME, FN, T, BITS, SIGNED, BL)                                                                      \
void harness_##NAME(void) { U8 b[BL]; size_t len = nd8(); Buffer buf; T res = 0; U64 want = 0; int n; size_t r; int k; \
    V_ASSUME(len <= BL); for (k = 0; k < BL; k++) b[k] = nd8();                                                  \
    buf.data = b; buf.length = len; n = spec_leb(b, len, BITS, SIGNED, &want);                                   \
    r = FN(&buf, &res);                                                                                          \
    if (n > 0) { V_ASSERT(r == (size_t)n, #NAME ": a valid encoding is consumed completely, whatever its padding"); \
        V_ASSERT((U64)(BITS == 32 ? (U64)(U32)res : (U64)res) == want, #NAME ": decoded value equals the specification's");  \
        V_ASSERT(buf.data == b + n && buf.length == len - (size_t)n, #NAME ": buffer advanced by exactly the encoding"); V_WITNESS("valid encoding"); } \
    V_ASSERT(buf.length <= len && buf.data == b + (len - buf.length), #NAME ": never reads past the buffer");     \
    V_WITNESS("end"); }
LEBH(u32, leb128ReadU32, U32, 32, 0, 6)
LEBH(i32, leb128ReadI32, I32, 32, 1, 6)
LEBH(u64, leb128ReadU64, U64, 64, 0, 11)
LEBH(i64, leb128ReadI64, I64, 64, 1, 11)
