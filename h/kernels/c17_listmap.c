/* C17 kernels: one step of list.c / map.c from arbitrary valid states (covers removal orders that nested schedules cannot reach). */
#include "vh.h"
#include "w2c2_base.h"
void trap(Trap t) { (void)t; V_STOP(); }
#include "list.c"
#include "map.c"
#define NL 3
static ListLink node[NL];
void harness_list_remove(void) { int n = 1 + nd8() % NL, e = nd8() % NL, k, j = 0; ListLink* head; ListLink* p; ListLink* expect[NL]; int ne = 0;
    V_ASSUME(e < n);
    for (k = 0; k < NL; k++) { node[k].prev = (k > 0 && k < n) ? &node[k - 1] : NULL; node[k].next = (k + 1 < n) ? &node[k + 1] : NULL; }
    for (k = 0; k < NL; k++) if (k < n && k != e) expect[ne++] = &node[k];
    head = listRemove(&node[0], &node[e]);
    V_ASSERT(node[e].prev == NULL && node[e].next == NULL, "removed element is unlinked");
    for (p = head, j = 0; j < NL; j++) { if (p == NULL) break; V_ASSERT(j < ne && p == expect[j], "remaining elements keep their order"); V_ASSERT(p->prev == (j > 0 ? expect[j - 1] : NULL), "prev links are consistent"); p = p->next; }
    V_ASSERT(j == ne && p == NULL, "exactly the other elements remain (head, middle or tail removal)");
    V_WITNESS("end"); }
void harness_list_prepend(void) { int n = nd8() % NL, k; ListLink fresh; ListLink* head;
    for (k = 0; k < NL; k++) { node[k].prev = (k > 0 && k < n) ? &node[k - 1] : NULL; node[k].next = (k + 1 < n) ? &node[k + 1] : NULL; }
    fresh.prev = NULL; fresh.next = NULL;
    head = listPrepend(n > 0 ? &node[0] : NULL, &fresh);
    V_ASSERT(head == &fresh && fresh.prev == NULL && fresh.next == (n > 0 ? &node[0] : NULL), "new element becomes the head");
    if (n > 0) V_ASSERT(node[0].prev == &fresh, "old head points back to the new element");
    V_WITNESS("end"); }
/* map: three keys (symbolic, colliding in 2 buckets), insert all, remove one (symbolic which), the others stay reachable with their values */
void harness_map(void) { Map m; U32 key[3]; void** slot[3]; int k, r = nd8() % 3; static int val[3]; void* removed; void** g;
    for (k = 0; k < 3; k++) key[k] = nd32(); V_ASSUME(key[0] != key[1] && key[1] != key[2] && key[0] != key[2]);
    m.buckets = NULL; m.bucketCount = 0; mapInitialize(&m, 2); V_ASSUME(m.buckets != NULL);
    for (k = 0; k < 3; k++) { g = mapGet(&m, key[k]); V_ASSERT(g == NULL, "a key that was never inserted is absent"); slot[k] = mapInsert(&m, key[k]); V_ASSUME(slot[k] != NULL); *slot[k] = &val[k]; }
    for (k = 0; k < 3; k++) { g = mapGet(&m, key[k]); V_ASSERT(g != NULL && *g == &val[k], "every inserted key maps to its own value (also when keys collide in a bucket)"); }
    removed = mapRemove(&m, key[r]);
    V_ASSERT(removed == &val[r], "remove returns the value of the removed key");
    for (k = 0; k < 3; k++) { g = mapGet(&m, key[k]); if (k == r) V_ASSERT(g == NULL, "removed key is gone"); else V_ASSERT(g != NULL && *g == &val[k], "other keys survive a removal from the same bucket (head, middle or tail of the chain)"); }
    removed = mapRemove(&m, key[r]); V_ASSERT(removed == NULL, "removing an absent key is a no-op");
    V_WITNESS("end"); }
