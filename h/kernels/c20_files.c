/* C20 (+C10 path block): which files the translator touches. */
#include "vh.h"
#include "sprintf_model.h"
#include <stdio.h>
#include <string.h>
#include <stdlib.h>
#include <glob.h>
#include <unistd.h>
#include <libgen.h>
#include <ctype.h>
#include <limits.h>
/* scaling: path buffers are sized by PATH_MAX; the arithmetic is unchanged */
#undef PATH_MAX
#define PATH_MAX 16
static int vh_isalnum(int c) { return (c >= '0' && c <= '9') || (c >= 'a' && c <= 'z') || (c >= 'A' && c <= 'Z'); }
#undef isalnum
#define isalnum(c) vh_isalnum((int)(c))

/* ---- environment stubs ---- */
#define NG 3
#define GL 16
static char gnames[NG][GL]; static char* gvec[NG + 1]; static int gcount;
static int removed[NG]; static int remove_calls; static int remove_other;
static int vh_glob(const char* pat, int flags, int (*errf)(const char*, int), glob_t* g) { int k; (void)flags; (void)errf;
    V_ASSERT(pat[0] == '*' && pat[1] == '.' && pat[2] == 'c' && pat[3] == 0, "clean looks only at *.c in the output directory");
    if (nd8() & 1) return GLOB_NOMATCH;
    for (k = 0; k < NG; k++) gvec[k] = gnames[k]; gvec[NG] = 0; g->gl_pathc = (size_t)gcount; g->gl_pathv = gvec; return 0; }
static void vh_globfree(glob_t* g) { (void)g; }
static int vh_remove(const char* p) { int k, hit = 0; remove_calls++; for (k = 0; k < NG; k++) if (p == gnames[k]) { removed[k]++; hit = 1; } if (!hit) remove_other = 1; return (nd8() & 1) ? -1 : 0; }
#define PCAP 24
static char chdir_arg[PCAP]; static int chdir_calls; static char opened[4][PCAP]; static char opened_mode[4][4]; static int nopen;
static void capn(char* dst, const char* s) { int k; for (k = 0; k < PCAP - 1; k++) { dst[k] = s[k]; if (!s[k]) return; } dst[PCAP - 1] = 0; }
static int vh_chdir(const char* p) { chdir_calls++; capn(chdir_arg, p); return (nd8() & 1) ? -1 : 0; }
static FILE dummy_file;
static FILE* vh_fopen(const char* p, const char* mode) { V_ASSERT(nopen < 4, "harness: open table"); if (nopen < 4) { capn(opened[nopen], p); opened_mode[nopen][0] = mode[0]; opened_mode[nopen][1] = mode[1]; nopen++; } return (nd8() & 1) ? (FILE*)0 : &dummy_file; }
static int vh_fclose(FILE* f) { (void)f; return 0; }
/* strcpy with its C contract: the objects must not overlap */
static int overlap_seen;
static char* vh_strcpy(char* d, const char* s) { size_t n = strlen(s) + 1, k;
#ifdef REPLAY
    if ((d <= s && s < d + n) || (s <= d && d < s + n)) overlap_seen = 1;
#else
    if (__CPROVER_POINTER_OBJECT(d) == __CPROVER_POINTER_OBJECT(s)) { size_t od = __CPROVER_POINTER_OFFSET(d), os = __CPROVER_POINTER_OFFSET(s); if ((od <= os && os < od + n) || (os <= od && od < os + n)) overlap_seen = 1; }
#endif
    V_ASSERT(!overlap_seen, "strcpy is never given overlapping objects (undefined behaviour)");
    for (k = 0; k < PCAP; k++) { d[k] = s[k]; if (!s[k]) break; } return d; }
#define glob vh_glob
#define globfree vh_globfree
#define remove vh_remove
#define chdir vh_chdir
#define fopen vh_fopen
#define fclose vh_fclose
#define strcpy vh_strcpy
#ifdef BUNDLED_LIBGEN
#define basename w2c2_basename
#define dirname w2c2_dirname
#undef HAS_LIBGEN
#define HAS_LIBGEN 0
#include "compat.c"
#undef HAS_LIBGEN
#define HAS_LIBGEN 1
#else
/* POSIX contract: may modify its argument, may return a pointer into it or to static storage */
static char lg_static[4];
static char* vh_dirname(char* s) { size_t n = strlen(s), i; if (n == 0) { lg_static[0] = '.'; lg_static[1] = 0; return lg_static; }
    i = n; while (i > 1 && s[i - 1] == '/') i--;               /* strip trailing separators */
    while (i > 0 && s[i - 1] != '/') i--;                      /* strip last component */
    if (i == 0) { lg_static[0] = '.'; lg_static[1] = 0; return lg_static; }
    while (i > 1 && s[i - 1] == '/') i--; s[i] = 0; return s; }
static char* vh_basename(char* s) { size_t n = strlen(s), i; if (n == 0) { lg_static[0] = '.'; lg_static[1] = 0; return lg_static; }
    while (n > 1 && s[n - 1] == '/') { s[n - 1] = 0; n--; } i = n; while (i > 0 && s[i - 1] != '/') i--; if (n == 1 && s[0] == '/') return s; return s + i; }
#define dirname vh_dirname
#define basename vh_basename
#endif
#define main w2c2_main
#include "main.c"
#undef main
#include "c.c"
#include "stringbuilder.c"
void trap(Trap t) { (void)t; V_STOP(); }

/* ---- (a) clean: a name is removed iff it matches ^[sd][0-9]{10}\.c$ ---- */
static int matches(const char* p) { int k; size_t n = strlen(p); if (n != 13) return 0; if (p[0] != 's' && p[0] != 'd') return 0;
    for (k = 1; k <= 10; k++) if (p[k] < '0' || p[k] > '9') return 0; return p[11] == '.' && p[12] == 'c'; }
void harness_clean(void) { int k, j; gcount = nd8() % (NG + 1);
    for (k = 0; k < NG; k++) { size_t len = nd8() % (GL - 1); V_ASSUME(len >= 2);
        for (j = 0; j < GL - 1; j++) { gnames[k][j] = (char)nd8(); if ((size_t)j < len) V_ASSUME(gnames[k][j] != 0 && gnames[k][j] != '/'); }
        gnames[k][len] = 0;
#ifndef NO_GLOB_CONTRACT
        gnames[k][len - 2] = '.'; gnames[k][len - 1] = 'c';      /* glob("*.c") only returns names ending in .c */
#endif
    }
    cleanImplementationFiles();
    V_ASSERT(!remove_other, "clean removes only names returned for its own pattern");
    for (k = 0; k < NG; k++) { int want = (k < gcount) && matches(gnames[k]);
        if (remove_calls > 0 || want) { /* glob may also report no match at all */ }
        V_ASSERT(removed[k] <= 1, "a file is removed at most once");
        if (removed[k]) V_ASSERT(want, "clean deletes only files named s|d + ten digits + .c");
        if (want && remove_calls > 0) V_ASSERT(removed[k] == 1, "clean deletes every file that matches the implementation-file pattern"); }
    V_WITNESS("end"); }

/* ---- (b) implementation file names always match that pattern and fit the buffer ---- */
void harness_implname(void) { WasmModule m; WasmFunctionIDs ids = emptyWasmFunctionIDs; U32 fileIndex = nd32(); bool ok; char prefix = (nd8() & 1) ? 's' : 'd';
    memset(&m, 0, sizeof m);
    ok = wasmCWriteImplementationFile(&m, "m", "m.h", NULL, prefix, fileIndex, 0, 0, ids, false, false, false);
    V_ASSERT(sp_name_calls == 1 && (sp_name_prefix == 's' || sp_name_prefix == 'd') && sp_name_index == fileIndex, "implementation file name is prefix + %010u of the file index + .c");
    V_ASSERT(nopen == 1 && opened[0][0] == prefix && opened[0][11] == '.' && opened[0][12] == 'c' && opened[0][13] == 0 && opened_mode[0][0] == 'w', "exactly that file is created, in the current (output) directory");
    (void)ok; V_WITNESS("end"); }

/* ---- (c) output path handling: chdir(dirname(path)); files created by base name only ---- */
#ifndef PL
#define PL 5
#endif
static char opath[PL + 1];
static void sym_path(void) { int k; size_t len = nd8() % (PL + 1); V_ASSUME(len >= 1); for (k = 0; k < PL; k++) { opath[k] = (nd8() & 1) ? '/' : (char)('a' + (nd8() % 3)); if (nd8() % 5 == 0) opath[k] = '.'; } opath[len] = 0;
    V_ASSUME(opath[len - 1] != '/');   /* an output FILE path */ }
static void expect_dir(const char* p, char* out) { size_t n = strlen(p), i = n; while (i > 0 && p[i - 1] != '/') i--;   /* i = start of last component */
    if (i == 0) { out[0] = '.'; out[1] = 0; return; } while (i > 1 && p[i - 1] == '/') i--; memcpy(out, p, i); out[i] = 0; }
void harness_outdir(void) { char want[PL + 2]; bool ok; sym_path();
    expect_dir(opath, want);
    ok = changeToOutputDirectory(opath);
    V_ASSERT(chdir_calls == 1 && strcmp(chdir_arg, want) == 0, "the translator changes into the directory of the output path");
    (void)ok; V_WITNESS("end"); }
/* the path block of wasmCWriteModule is extracted from /repo/w2c2/c.c by the check (nameblock.inc: the statements between
 * the declarations of outputName/headerName and the first MUST(...) call), so the text executed here is the real source */
void harness_outnames(void) { struct { const char* outputPath; } options; size_t n, i, k;
    sym_path(); options.outputPath = opath;
    {
#include "nameblock.inc"
    n = strlen(opath); i = n; while (i > 0 && opath[i - 1] != '/') i--;
    V_ASSERT(strcmp(outputName, opath + i) == 0, "the implementation is written under the base name of the output path");
    for (k = 0; k < PL; k++) { if (!outputName[k]) break; V_ASSERT(outputName[k] != '/', "no directory component in a created file name"); }
    for (k = 0; k < PL + 2; k++) { if (!headerName[k]) break; V_ASSERT(headerName[k] != '/', "no directory component in the header name"); }
    { size_t hl = strlen(headerName); V_ASSERT(hl >= 2 && headerName[hl - 2] == '.' && headerName[hl - 1] == 'h', "header is the base name with its extension replaced by .h"); }
    /* the header is derived from the BASE NAME (not from the whole path: a '.' in a directory component must not matter) */
    { char wanth[PL + 4]; size_t bl = n - i, j, cut = bl; for (j = 0; j < PL; j++) if (j < bl && opath[i + j] == '.') cut = j;
      for (j = 0; j < PL; j++) if (j < cut) wanth[j] = opath[i + j]; wanth[cut] = '.'; wanth[cut + 1] = 'h'; wanth[cut + 2] = 0;
      V_ASSERT(strcmp(headerName, wanth) == 0, "the header is the base name of the output path with its last extension replaced by .h"); }
    }
    V_WITNESS("end"); }
