/* C10 kernel: wasmFunctionNamesRemoveDuplicates (reader.c, reached with -g and a name section) on every assignment of
 * names to NF functions: each name is absent (NULL) or a heap string of one character from {a,b,c} - so every pattern of
 * duplicates (none, pairs, triples, all equal, two different pairs) and every sort position is covered.  Memory safety is
 * decided by CBMC's pointer checks (a freed or foreign string must not be read); the result is compared with the rule. */
#include "vh.h"
#include <stdlib.h>
#include <string.h>
#include <stdio.h>
/* qsort: specified as "sorts"; a plain insertion sort with the caller's comparator stands in for it */
static void vh_qsort(void* base, size_t n, size_t size, int (*cmp)(const void*, const void*)) {
    size_t i, j; char tmp[64]; char* b = (char*)base;
    for (i = 1; i < 6; i++) if (i < n) for (j = i; j > 0; j--) {
        if (cmp(b + (j - 1) * size, b + j * size) > 0) { memcpy(tmp, b + (j - 1) * size, size); memcpy(b + (j - 1) * size, b + j * size, size); memcpy(b + j * size, tmp, size); } else break; } }
#define qsort vh_qsort
#undef fprintf
#define fprintf(...) ((void)0)
#include "reader.c"
void trap(Trap t) { (void)t; V_STOP(); }
#ifndef NF
#define NF 4
#endif
void harness_dupnames(void) { WasmNames names; char* orig[NF]; char ch[NF]; int k, j; WasmModuleReaderError* error = NULL;
    names.length = NF; names.names = calloc(NF, sizeof(char*)); V_ASSUME(names.names != NULL);
    for (k = 0; k < NF; k++) { unsigned s = nd8() % 4; ch[k] = 0; orig[k] = NULL;
        if (s) { char* p = malloc(2); V_ASSUME(p != NULL); p[0] = (char)('a' + s - 1); p[1] = 0; ch[k] = p[0]; orig[k] = p; }
        names.names[k] = orig[k]; }
    wasmFunctionNamesRemoveDuplicates(&names, &error);
    V_ASSERT(error == NULL, "no error for a valid name map (allocation failure out of scope)");
    for (k = 0; k < NF; k++) { int dup = 0; for (j = 0; j < NF; j++) if (j != k && ch[k] && ch[j] == ch[k]) dup = 1;
        if (ch[k] && !dup) V_ASSERT(names.names[k] == orig[k] && names.names[k][0] == ch[k], "a unique function name is kept");
        if (ch[k] && dup) V_ASSERT(names.names[k] == NULL || names.names[k] == orig[k], "a duplicated name is dropped or kept, never replaced");
        if (!ch[k]) V_ASSERT(names.names[k] == NULL, "an unnamed function stays unnamed"); }
    V_WITNESS("end"); }
