/* C09 kernel: static/dynamic classification against a reference module (main.c wasmSplitStaticAndDynamicFunctions). */
#include "vh.h"
#include <stdio.h>
#include <stdlib.h>
#include <string.h>
#define main w2c2_main
#include "main.c"
#undef main
#include "array.c"
void trap(Trap t) { (void)t; V_STOP(); }
#ifndef NM
#define NM 3
#endif
/* harness-side comparison: only bytes 0 and 19 of the hashes are non-zero */
static int hcmp(const WasmFunctionID* a, const WasmFunctionID* b) { if (a->hash[0] != b->hash[0]) return a->hash[0] < b->hash[0] ? -1 : 1; if (a->hash[19] != b->hash[19]) return a->hash[19] < b->hash[19] ? -1 : 1; return 0; }
static WasmFunctionID modids[NM], refids[NM], stbuf[NM], dybuf[NM];
static int in_ref(const WasmFunctionID* x, size_t m) { size_t k; for (k = 0; k < NM; k++) if (k < m && hcmp(x, &refids[k]) == 0) return 1; return 0; }
void harness(void) { size_t n = nd8() % (NM + 1), m = nd8() % (NM + 1), k, j; WasmFunctionIDs a = emptyWasmFunctionIDs, r = emptyWasmFunctionIDs, st = emptyWasmFunctionIDs, dy = emptyWasmFunctionIDs;
    for (k = 0; k < NM; k++) { memset(&modids[k], 0, sizeof modids[k]); memset(&refids[k], 0, sizeof refids[k]); modids[k].hash[0] = nd8(); modids[k].hash[19] = nd8() & 1; refids[k].hash[0] = nd8(); refids[k].hash[19] = nd8() & 1; modids[k].functionIndex = (U32)k; refids[k].functionIndex = (U32)(10 + k); }
    /* both ID lists are sorted by hash (wasmSortedFunctionIDs); duplicates allowed */
    for (k = 0; k + 1 < NM; k++) { if (k + 1 < n) V_ASSUME(hcmp(&modids[k], &modids[k + 1]) <= 0); if (k + 1 < m) V_ASSUME(hcmp(&refids[k], &refids[k + 1]) <= 0); }
    a.functionIDs = modids; a.length = n; a.capacity = NM; r.functionIDs = refids; r.length = m; r.capacity = NM;
    /* output arrays are pre-sized (array growth through realloc with a symbolic size exhausts memory; growth is covered by the array kernel of C10) */
    st.functionIDs = stbuf; st.capacity = NM; dy.functionIDs = dybuf; dy.capacity = NM;
    wasmSplitStaticAndDynamicFunctions(a, r, &st, &dy);
    V_ASSERT(st.length + dy.length == n, "every function lands in exactly one of the static and dynamic lists");
    for (k = 0; k < NM; k++) if (k < n) { int cs = 0, cd = 0; for (j = 0; j < NM; j++) { if (j < st.length && st.functionIDs[j].functionIndex == (U32)k) cs++; if (j < dy.length && dy.functionIDs[j].functionIndex == (U32)k) cd++; }
        V_ASSERT(cs + cd == 1, "each function is emitted exactly once across static and dynamic files");
        if (cs) V_ASSERT(in_ref(&modids[k], m), "a function is classified static only if the reference module contains an identical hash (byte-identical body)"); }
    for (j = 0; j + 1 < NM; j++) { if (j + 1 < st.length) V_ASSERT(st.functionIDs[j].functionIndex < st.functionIDs[j + 1].functionIndex, "order preserved in the static list"); if (j + 1 < dy.length) V_ASSERT(dy.functionIDs[j].functionIndex < dy.functionIDs[j + 1].functionIndex, "order preserved in the dynamic list"); }
    if (st.length > 0) V_WITNESS("some static"); if (dy.length > 0) V_WITNESS("some dynamic");
    V_WITNESS("end"); }
