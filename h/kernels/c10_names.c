/* C10 kernel: every emitter path that receives a name, on symbolic names (all 256 byte values). */
#include "vh.h"
#include "sprintf_model.h"
#include <ctype.h>
/* isalnum: "C" locale, tolerant of negative char values like glibc's table (indices -128..255) */
static int vh_isalnum(int c) { return (c >= '0' && c <= '9') || (c >= 'a' && c <= 'z') || (c >= 'A' && c <= 'Z'); }
#undef isalnum
#define isalnum(c) vh_isalnum((int)(c))
#include "c.c"
#include "stringbuilder.c"
void trap(Trap t) { (void)t; V_STOP(); }
#ifndef NLEN
#define NLEN 3
#endif
static int ident_char(char c) { return (c >= '0' && c <= '9') || (c >= 'a' && c <= 'z') || (c >= 'A' && c <= 'Z') || c == '_'; }
/* string escaper: memory-safe for every byte, output is identifier-safe, each non-alphanumeric byte becomes X + exactly two hex digits */
void harness_escape(void) { char name[NLEN + 1]; StringBuilder b = emptyStringBuilder; int k; bool ok; size_t want = 0;
    for (k = 0; k < NLEN; k++) { name[k] = (char)nd8(); V_ASSUME(name[k] != 0); } name[NLEN] = 0;
    ok = stringBuilderInitialize(&b); V_ASSUME(ok);
    ok = wasmCWriteStringEscaped(&b, name); V_ASSERT(ok, "escaper succeeds");
    for (k = 0; k < NLEN; k++) { char c = name[k];
        if (c == '_') want += (k > 0 && name[k - 1] == '_') ? 2 : 1;
        else if (c != 'X' && ((c >= '0' && c <= '9') || (c >= 'a' && c <= 'z') || (c >= 'A' && c <= 'Z'))) want += 1;
        else want += 3; }
    V_ASSERT(b.length == want, "escaped length: plain characters 1, underscore 1 or 2, every other byte X + two hex digits");
    for (k = 0; k < 3 * NLEN + 1; k++) if ((size_t)k < b.length) V_ASSERT(ident_char(b.string[k]), "escaped name is a C identifier fragment");
    V_ASSERT(b.string[b.length] == 0, "builder string is terminated");
    V_WITNESS("end"); }
/* CharHex directly, all byte values */
void harness_charhex(void) { StringBuilder b = emptyStringBuilder; char c = (char)nd8(); bool ok; unsigned v = (unsigned char)c;
    ok = stringBuilderInitialize(&b); V_ASSUME(ok);
    ok = stringBuilderAppendCharHex(&b, c); V_ASSERT(ok, "append succeeds");
    V_ASSERT(b.length == 2, "a byte is rendered as exactly two hex digits");
    V_ASSERT(b.string[0] == "0123456789ABCDEF"[v >> 4] && b.string[1] == "0123456789ABCDEF"[v & 15], "hex digits of the byte value");
    V_WITNESS("end"); }
/* string builder growth from an arbitrary valid state: append n bytes, capacity arithmetic, termination */
void harness_builder(void) { StringBuilder b = emptyStringBuilder; bool ok; size_t n1 = nd8() % 20, n2 = nd8() % 20, k; char src[20];
    for (k = 0; k < 20; k++) src[k] = (char)('a' + (nd8() % 26));
    ok = stringBuilderInitialize(&b); V_ASSUME(ok);
    ok = stringBuilderAppendSized(&b, src, n1); V_ASSERT(ok, "append succeeds");
    ok = stringBuilderAppendChar(&b, 'q'); V_ASSERT(ok, "append char succeeds");
    ok = stringBuilderAppendSized(&b, src, n2); V_ASSERT(ok, "append succeeds");
    V_ASSERT(b.length == n1 + 1 + n2 && b.capacity > b.length && b.string[b.length] == 0, "length, capacity and terminator are consistent");
    if (n1 > 0) V_ASSERT(b.string[0] == src[0], "content kept across growth");
    V_ASSERT(b.string[n1] == 'q', "content in order");
    ok = stringBuilderReset(&b); V_ASSERT(ok && b.length == 0 && b.string[0] == 0, "reset empties the builder");
    stringBuilderFree(&b);
    V_WITNESS("end"); }
