/* C18: concurrent memory.grow on a shared memory: real wasmMemoryGrow under a sequentialised scheduler.
 * The only blocking primitive is the mutex: requesting it is the yield point (other agents may run to completion
 * between the unlocked prefix of the function and its critical section). */
#include "vh.h"
#include <pthread.h>
#ifndef NA
#define NA 2
#endif
static int mutex_held; static int started[3], done[3]; static uint32_t delta[3], ret[3]; static uint32_t obs; static int obs_done;
static void run_0(void); static void run_1(void); static void run_2(void); static void run_reader(void);
static void run_others(void) {
    if (nd8() & 1) { if (!started[0] && (nd8() & 1)) run_0(); if (!started[1] && (nd8() & 1)) run_1();
#if NA > 2
        if (!started[2] && (nd8() & 1)) run_2();
#endif
        if (!obs_done && (nd8() & 1)) run_reader();
    } else { if (!obs_done && (nd8() & 1)) run_reader();
#if NA > 2
        if (!started[2] && (nd8() & 1)) run_2();
#endif
        if (!started[1] && (nd8() & 1)) run_1(); if (!started[0] && (nd8() & 1)) run_0(); } }
int pthread_mutex_init(pthread_mutex_t* m, const pthread_mutexattr_t* a) { (void)m; (void)a; return 0; }
int pthread_mutex_lock(pthread_mutex_t* m) { (void)m; run_others(); V_ASSERT(!mutex_held, "mutex is free when requested (agents run to completion)"); mutex_held = 1; return 0; }
int pthread_mutex_unlock(pthread_mutex_t* m) { (void)m; V_ASSERT(mutex_held, "mutex is only released by its holder"); mutex_held = 0; return 0; }
#include "w2c2_base.h"
void trap(Trap t) { (void)t; V_STOP(); }
static wasmMemory mem; static U8 backing[8 * WASM_PAGE_SIZE];
#define RUN(k) static void run_##k(void) { started[k] = 1; ret[k] = wasmMemoryGrow(&mem, delta[k]); V_ASSERT(!mutex_held, "grow returns with the mutex released"); done[k] = 1; }
RUN(0) RUN(1) RUN(2)
/* memory.size as emitted: a plain read of the page count */
static void run_reader(void) { obs = mem.pages; obs_done = 1; }

void harness(void) { uint32_t p0 = nd8() % 5, mx = nd8() % 9, k; int ok01, ok10; uint64_t sum = 0;
    V_ASSUME(p0 <= mx && mx <= 8);
    mem.data = backing; mem.pages = p0; mem.maxPages = mx; mem.size = p0 * WASM_PAGE_SIZE; mem.shared = true;
    for (k = 0; k < NA; k++) { delta[k] = nd32(); }
    if (nd8() & 1) { if (!started[0]) run_0(); if (!started[1]) run_1();
#if NA > 2
        if (!started[2]) run_2();
#endif
    } else {
#if NA > 2
        if (!started[2]) run_2();
#endif
        if (!started[1]) run_1(); if (!started[0]) run_0(); }
    if (!obs_done) run_reader();
    for (k = 0; k < NA; k++) { V_ASSERT(done[k], "every grow terminates"); if (ret[k] != 0xFFFFFFFFu) sum += delta[k]; }
    V_ASSERT((uint64_t)mem.pages == (uint64_t)p0 + sum, "final size = initial size + sum of the successful deltas (no lost update; failed grows change nothing)");
    V_ASSERT(mem.pages <= mx, "final size never exceeds the declared maximum");
    V_ASSERT((uint64_t)mem.size == (uint64_t)mem.pages * WASM_PAGE_SIZE, "byte size is consistent with the page count");
#if NA == 2
    if (ret[0] != 0xFFFFFFFFu && ret[1] != 0xFFFFFFFFu) {
        ok01 = ret[0] == p0 && ret[1] == p0 + delta[0]; ok10 = ret[1] == p0 && ret[0] == p0 + delta[1];
        V_ASSERT(ok01 || ok10, "successful grows return the old sizes of one sequential order");
        if (delta[0] != 0 && delta[1] != 0) V_ASSERT(ret[0] != ret[1], "successful non-empty grows return distinct old sizes");
        V_ASSERT(obs == p0 || obs == p0 + delta[0] || obs == p0 + delta[1] || obs == p0 + delta[0] + delta[1], "memory.size observes the size after a prefix of that order");
        V_WITNESS("both grows succeeded"); }
    else if (ret[0] != 0xFFFFFFFFu) V_ASSERT(ret[0] == p0, "a single successful grow returns the initial size");
    else if (ret[1] != 0xFFFFFFFFu) V_ASSERT(ret[1] == p0, "a single successful grow returns the initial size");
    else { V_ASSERT(mem.pages == p0 && obs == p0, "failed grows change nothing"); V_WITNESS("both failed"); }
#else
    { int nsucc = 0; for (k = 0; k < 3; k++) if (ret[k] != 0xFFFFFFFFu) nsucc++;
      if (nsucc == 3) { uint32_t a, b, c; int found = 0; for (a = 0; a < 3; a++) for (b = 0; b < 3; b++) for (c = 0; c < 3; c++) if (a != b && b != c && a != c)
            if (ret[a] == p0 && ret[b] == p0 + delta[a] && ret[c] == p0 + delta[a] + delta[b]) found = 1;
        V_ASSERT(found, "successful grows return the old sizes of one sequential order"); V_WITNESS("three grows succeeded"); } }
#endif
    V_WITNESS("end"); }
