/* C12: WASI file I/O marshalling against nondeterministic POSIX stubs. */
#include "wasi_env.h"

static U32 the_wfd; static int the_nfd;
static void open_file(void) { bool ok; table_init(); the_nfd = 4; nf_open[4] = 1; nf_pos[4] = (long long)(nd32() & 0xFFFFFF); nf_size[4] = (long long)(nd32() & 0xFFFFFF);
    next_native_fd = 5; ok = wasiFileDescriptorAdd(4, "/d/f", &the_wfd); V_ASSUME(ok); nlog = 0; }

/* guest iovec array with cnt segments, all in bounds */
static U32 iov_ptr, iov_cnt, iov_buf[IOVMAX], iov_len[IOVMAX], res_ptr;
static void make_iovs(void) { U32 k; iov_cnt = nd8() % (IOVMAX + 1); iov_ptr = gptr(8 * iov_cnt); res_ptr = gptr(8);
    V_ASSUME(res_ptr + 8 <= iov_ptr || res_ptr >= iov_ptr + 8 * iov_cnt); /* the guest keeps its result cell apart from the vector */
    for (k = 0; k < IOVMAX; k++) if (k < iov_cnt) { iov_len[k] = nd8() % 9; iov_buf[k] = gptr(iov_len[k]); gput(iov_ptr + 8 * k, 4, iov_buf[k]); gput(iov_ptr + 8 * k + 4, 4, iov_len[k]); } }
static void check_iovs(void) { U32 k; V_ASSERT(seen_iov_fd == the_nfd, "transfer uses the native descriptor of the WASI descriptor");
    V_ASSERT((U32)seen_iovcnt == iov_cnt, "all segments are handed over");
    for (k = 0; k < IOVMAX; k++) if (k < iov_cnt) { V_ASSERT(seen_iov[k].iov_base == (void*)(gdata + iov_buf[k]), "segment k points at guest memory + buffer pointer, in order");
        V_ASSERT(seen_iov[k].iov_len == iov_len[k], "segment k has the guest's length"); } }
static int errno_at_fail;

#define RW_HARNESS(NAME, CALL, FN, POSITIONAL)                                                                        \
void harness_##NAME(void) { U32 r; long long pos0; U64 off = nd64(); int saved_log;                                   \
    guest_init(); open_file(); make_iovs(); pos0 = nf_pos[4]; V_ASSUME((long long)off >= 0);                          \
    if (iov_cnt > 0 && nd8() % 2) { /* the result cell may alias nothing else: keep it apart from the vector */ }     \
    r = CALL;                                                                                                         \
    if (POSITIONAL) {                                                                                                 \
        /* either one native positional call, or the documented emulation lseek(CUR) lseek(SET,off) transfer lseek(SET,saved) */ \
        V_ASSERT(nlog >= 1 && LOG[0].fn == F_LSEEK && LOG[0].a[0] == 4 && LOG[0].a[1] == 0 && LOG[0].a[2] == SEEK_CUR, "positional I/O first saves the position"); \
        if (nlog >= 2) V_ASSERT(LOG[1].fn == F_LSEEK && LOG[1].a[0] == 4 && (U64)LOG[1].a[1] == off && LOG[1].a[2] == SEEK_SET, "positional I/O seeks to the full 64-bit offset"); \
        if (nlog >= 3) { V_ASSERT(LOG[2].fn == FN, "transfer follows the seek"); V_ASSERT(io_pos_at_transfer == (long long)off, "transfer happens at the requested offset"); check_iovs(); } \
        if (nlog >= 3) V_ASSERT(nlog == 4 && LOG[3].fn == F_LSEEK && LOG[3].a[0] == 4 && LOG[3].a[1] == pos0 && LOG[3].a[2] == SEEK_SET, "positional I/O restores the saved position on every path after the transfer"); \
        if (r == 0) { V_ASSERT(nlog == 4, "success only after the full sequence"); V_ASSERT(nf_pos[4] == pos0, "file position unchanged by positional I/O"); } \
    } else {                                                                                                          \
        V_ASSERT(nlog == 1 && LOG[0].fn == FN, "exactly one native transfer"); check_iovs();                          \
    }                                                                                                                 \
    if (r == 0) { V_WITNESS("success path"); }                                                                        \
    else { V_ASSERT((int)r == spec_errno(errno), "error code is the WASI translation of errno"); V_WITNESS("error path"); } \
    (void)saved_log; V_WITNESS("end"); }

static long long last_ret;
RW_HARNESS(fd_write, wasi_snapshot_preview1__fd_write(0, the_wfd, iov_ptr, iov_cnt, res_ptr), F_WRITEV, 0)
RW_HARNESS(fd_read, wasi_snapshot_preview1__fd_read(0, the_wfd, iov_ptr, iov_cnt, res_ptr), F_READV, 0)
RW_HARNESS(fd_write_unstable, wasi_unstable__fd_write(0, the_wfd, iov_ptr, iov_cnt, res_ptr), F_WRITEV, 0)
RW_HARNESS(fd_pwrite, wasi_snapshot_preview1__fd_pwrite(0, the_wfd, iov_ptr, iov_cnt, off, res_ptr), F_WRITEV, 1)
RW_HARNESS(fd_pread, wasi_snapshot_preview1__fd_pread(0, the_wfd, iov_ptr, iov_cnt, off, res_ptr), F_READV, 1)
RW_HARNESS(fd_pread_unstable, wasi_unstable__fd_pread(0, the_wfd, iov_ptr, iov_cnt, off, res_ptr), F_READV, 1)

/* byte count stored: a second harness with a deterministic-success stub path */
void harness_fd_write_count(void) { U32 r; long long before; guest_init(); open_file(); make_iovs(); before = nf_pos[4];
    r = wasi_snapshot_preview1__fd_write(0, the_wfd, iov_ptr, iov_cnt, res_ptr);
    if (r == 0) { V_ASSERT(gle(res_ptr, 4) == (U64)(U32)(nf_pos[4] - before), "byte count stored little-endian at the result pointer equals the native count"); V_WITNESS("success path"); }
    V_WITNESS("end"); }
void harness_fd_read_count(void) { U32 r; long long before; guest_init(); open_file(); make_iovs(); before = nf_pos[4];
    r = wasi_snapshot_preview1__fd_read(0, the_wfd, iov_ptr, iov_cnt, res_ptr);
    if (r == 0) { V_ASSERT(gle(res_ptr, 4) == (U64)(U32)(nf_pos[4] - before), "byte count stored little-endian at the result pointer equals the native count"); V_WITNESS("success path"); }
    V_WITNESS("end"); }

/* seek / tell: both ABI generations, all whence values, all offsets */
static void seek_common(int unstable) { U32 r, whence = nd32(), rp; U64 off = nd64(); int expect; long long pos0, size0;
    guest_init(); open_file(); rp = gptr(8); pos0 = nf_pos[4]; size0 = nf_size[4];
    r = unstable ? wasi_unstable__fd_seek(0, the_wfd, off, whence, rp) : wasi_snapshot_preview1__fd_seek(0, the_wfd, off, whence, rp);
    /* preview1: 0 SET 1 CUR 2 END; unstable: 0 CUR 1 END 2 SET */
    if (whence > 2) { V_ASSERT(r == 28 && nlog == 0, "unknown whence is EINVAL without a native call"); V_WITNESS("bad whence"); return; }
    expect = unstable ? (whence == 0 ? SEEK_CUR : whence == 1 ? SEEK_END : SEEK_SET) : (whence == 0 ? SEEK_SET : whence == 1 ? SEEK_CUR : SEEK_END);
    V_ASSERT(nlog == 1 && LOG[0].fn == F_LSEEK && LOG[0].a[0] == 4 && (U64)LOG[0].a[1] == off && LOG[0].a[2] == expect, "lseek gets the native descriptor, the full 64-bit offset and the whence of this ABI generation");
    if (r == 0) { long long want = expect == SEEK_SET ? (long long)off : expect == SEEK_CUR ? pos0 + (long long)off : size0 + (long long)off;
        V_ASSERT(gle(rp, 8) == (U64)want && nf_pos[4] == want, "new 64-bit offset stored little-endian"); V_WITNESS("success path"); }
    else V_ASSERT((int)r == spec_errno(errno), "error code is the WASI translation of errno");
    V_WITNESS("end"); }
void harness_fd_seek(void) { seek_common(0); }
void harness_fd_seek_unstable(void) { seek_common(1); }
void harness_fd_tell(void) { U32 r, rp; long long pos0; guest_init(); open_file(); rp = gptr(8); pos0 = nf_pos[4];
    r = wasi_snapshot_preview1__fd_tell(0, the_wfd, rp);
    V_ASSERT(nlog == 1 && LOG[0].fn == F_LSEEK && LOG[0].a[1] == 0 && LOG[0].a[2] == SEEK_CUR, "tell is lseek(fd, 0, SEEK_CUR)");
    if (r == 0) { V_ASSERT(gle(rp, 8) == (U64)pos0 && nf_pos[4] == pos0, "tell stores the current offset and does not move"); V_WITNESS("success path"); }
    V_WITNESS("end"); }

/* filestat layouts */
static U64 ts_ns(struct timespec t) { return (U64)((long long)t.tv_sec * 1000000000ll + (long long)t.tv_nsec); }
static int ftype(mode_t m) { if (S_ISCHR(m)) return 2; if (S_ISDIR(m)) return 3; if (S_ISREG(m)) return 4; if (S_ISLNK(m)) return 7; if (S_ISBLK(m)) return 1; return 0; }
static void filestat_common(int unstable) { U32 r, sp; U32 k; U8 before; guest_init(); open_file(); sp = gptr(64);
    k = nd8() % GMEM; before = gdata[k];
    r = unstable ? wasi_unstable__fd_filestat_get(0, the_wfd, sp) : wasi_snapshot_preview1__fd_filestat_get(0, the_wfd, sp);
    V_ASSERT(nlog == 1 && LOG[0].fn == F_FSTAT && LOG[0].a[0] == 4, "fstat on the native descriptor");
    if (r == 0) {
        V_ASSERT(gle(sp, 8) == (U64)given_stat.st_dev, "filestat.dev u64 @0");
        V_ASSERT(gle(sp + 8, 8) == (U64)given_stat.st_ino, "filestat.ino u64 @8");
        V_ASSERT(gdata[sp + 16] == ftype(given_stat.st_mode), "filestat.filetype u8 @16");
        if (unstable) { V_ASSERT(gle(sp + 20, 4) == (U64)(U32)given_stat.st_nlink, "unstable filestat.nlink u32 @20"); V_ASSERT(gle(sp + 24, 8) == (U64)given_stat.st_size, "unstable filestat.size u64 @24");
            V_ASSERT(gle(sp + 32, 8) == ts_ns(given_stat.st_atim) && gle(sp + 40, 8) == ts_ns(given_stat.st_mtim) && gle(sp + 48, 8) == ts_ns(given_stat.st_ctim), "unstable filestat times ns @32/40/48"); }
        else { V_ASSERT(gle(sp + 24, 8) == (U64)given_stat.st_nlink, "filestat.nlink u64 @24"); V_ASSERT(gle(sp + 32, 8) == (U64)given_stat.st_size, "filestat.size u64 @32");
            V_ASSERT(gle(sp + 40, 8) == ts_ns(given_stat.st_atim) && gle(sp + 48, 8) == ts_ns(given_stat.st_mtim) && gle(sp + 56, 8) == ts_ns(given_stat.st_ctim), "filestat times ns @40/48/56"); }
        V_WITNESS("success path"); }
    else V_ASSERT((int)r == spec_errno(errno), "error code is the WASI translation of errno");
    if (k < sp || k >= sp + 64) V_ASSERT(gdata[k] == before, "no guest byte outside the 64-byte filestat is written (arbitrary index)");
    V_WITNESS("end"); }
void harness_fd_filestat(void) { filestat_common(0); }
void harness_fd_filestat_unstable(void) { filestat_common(1); }

/* path_open flag translation; fd_close */
void harness_path_open_flags(void) { U32 r, pp, fp, wd, oflags = nd32() & 0xF, fdflags = nd32() & 0x1F; U64 rights = nd64(); bool ok; int want;
    guest_init(); table_init(); ok = wasiFileDescriptorAdd(-1, "/d", &wd); V_ASSUME(ok); nlog = 0;
    pp = gptr(2); gdata[pp] = 'a'; gdata[pp + 1] = 'b'; fp = gptr(4);
    r = wasi_snapshot_preview1__path_open(0, wd, 0, pp, 2, oflags, rights, rights, fdflags, fp);
    V_ASSERT(nlog >= 1 && LOG[0].fn == F_OPEN, "path_open opens the host file");
    V_ASSERT(cap_len[0] == 5 && cap_path[0][0] == '/' && cap_path[0][1] == 'd' && cap_path[0][2] == '/' && cap_path[0][3] == 'a' && cap_path[0][4] == 'b', "host path is directory + / + guest path");
    { int rd = (rights & ((1ull << 1) | (1ull << 14))) != 0; int wr = (rights & ((1ull << 0) | (1ull << 6) | (1ull << 8) | (1ull << 22))) != 0;
      want = wr ? (rd ? O_RDWR : O_WRONLY) : O_RDONLY; }
    if (oflags & 1) want |= O_CREAT; if (oflags & 2) want |= O_DIRECTORY; if (oflags & 4) want |= O_EXCL; if (oflags & 8) want |= O_TRUNC;
    if (fdflags & 1) want |= O_APPEND; if (fdflags & 2) want |= O_DSYNC; if (fdflags & 4) want |= O_NONBLOCK; if (fdflags & 16) want |= O_SYNC;
    V_ASSERT((int)LOG[0].a[0] == want, "open flags: access mode from rights, create/directory/exclusive/truncate/append/dsync/nonblock/sync from oflags and fdflags");
    if (r == 0) { U32 nfd = (U32)gle(fp, 4); WasiFileDescriptor d; V_ASSERT(nfd > wd && wasiFileDescriptorGet(nfd, &d) && d.fd == 3, "new descriptor stored at the result pointer and bound to the opened native fd"); V_WITNESS("success path"); }
    V_WITNESS("end"); }

void harness_fd_close(void) { U32 r; guest_init(); open_file(); r = wasi_snapshot_preview1__fd_close(0, the_wfd);
    V_ASSERT(nlog == 1 && LOG[0].fn == F_CLOSE && LOG[0].a[0] == 4, "close of the native descriptor");
    if (r == 0) { V_ASSERT(!nf_open[4], "native descriptor closed"); V_WITNESS("success path"); }
    V_WITNESS("end"); }

/* position bookkeeping over a short history: write, pwrite, read on one descriptor */
void harness_history(void) { U32 r1, r2, r3; long long p0, p1, p2; U64 off = nd64(); guest_init(); open_file(); make_iovs(); V_ASSUME((long long)off >= 0);
    p0 = nf_pos[4]; r1 = wasi_snapshot_preview1__fd_write(0, the_wfd, iov_ptr, iov_cnt, res_ptr); p1 = nf_pos[4];
    if (r1 == 0) V_ASSERT(p1 - p0 == (long long)gle(res_ptr, 4), "write advances the position by the stored count");
    r2 = wasi_snapshot_preview1__fd_pwrite(0, the_wfd, iov_ptr, iov_cnt, off, res_ptr); p2 = nf_pos[4];
    if (r2 == 0) V_ASSERT(p2 == p1, "pwrite leaves the position where write left it");
    r3 = wasi_snapshot_preview1__fd_tell(0, the_wfd, res_ptr);
    if (r2 == 0 && r3 == 0) V_ASSERT((long long)gle(res_ptr, 8) == p1, "tell after write+pwrite reports the position after write");
    V_WITNESS("end"); }

/* errno translation table: every host errno with a WASI counterpart is translated to that code */
void harness_errno(void) { int k = nd8() % N_FS_ERRNOS; int e = fs_errnos[k]; U16 r; errno = e; r = wasiErrno();
    V_ASSERT((int)r == spec_errno(e), "host errno is translated to the WASI errno of the same name"); V_WITNESS("end"); }
