/* C01 kernel harnesses: integer macros / inline functions of the real w2c2_base.h against
 * ref_ops.h, all operand values.  Entry points: harness_<name>.  Division and remainder are
 * case-partitioned with assumptions (DESIGN.md E1). */
#include "vh.h"
#include "ref_ops.h"
#include "w2c2_base.h"

static int expect_trap = -1;   /* -1: no trap allowed */
void trap(Trap t) {
    V_ASSERT(expect_trap >= 0, "trap handler entered only when the specification traps");
    V_ASSERT((int)t == expect_trap, "trap code equals the specification's trap kind");
    V_WITNESS("trap path reachable");
    V_STOP();
#ifndef REPLAY
    while (1) { }
#endif
}

#define BIN(name, T, nd, REAL, REF) \
void harness_##name(void) { T x = nd(), y = nd(); T r = (T)(REAL); \
    V_ASSERT(r == (T)(REF), #name " equals the specification for all operands"); V_WITNESS("end"); }
#define UN(name, T, nd, REAL, REF) \
void harness_##name(void) { T x = nd(); T r = (T)(REAL); \
    V_ASSERT(r == (T)(REF), #name " equals the specification for all operands"); V_WITNESS("end"); }

BIN(i32_rotl, U32, nd32, I32_ROTL(x, y), r_i32_rotl(x, y))
BIN(i32_rotr, U32, nd32, I32_ROTR(x, y), r_i32_rotr(x, y))
BIN(i64_rotl, U64, nd64, I64_ROTL(x, y), r_i64_rotl(x, y))
BIN(i64_rotr, U64, nd64, I64_ROTR(x, y), r_i64_rotr(x, y))
UN(i32_clz, U32, nd32, I32_CLZ(x), r_i32_clz(x))
UN(i32_ctz, U32, nd32, I32_CTZ(x), r_i32_ctz(x))
UN(i32_popcnt, U32, nd32, I32_POPCNT(x), r_i32_popcnt(x))
UN(i64_clz, U64, nd64, I64_CLZ(x), r_i64_clz(x))
UN(i64_ctz, U64, nd64, I64_CTZ(x), r_i64_ctz(x))
UN(i64_popcnt, U64, nd64, I64_POPCNT(x), r_i64_popcnt(x))

/* division / remainder: three partitions each */
#define DIVREM(name, T, ST, nd, MINV, REAL, CREF, is_signed, is_div) \
void harness_##name##_zero(void) { T x = nd(), y = nd(); T r; V_ASSUME(y == 0); expect_trap = trapDivByZero; \
    r = (T)(REAL); (void)r; V_ASSERT(0, #name ": division by zero must trap"); } \
void harness_##name##_ovf(void) { T x = nd(), y = nd(); T r; V_ASSUME(x == (T)(MINV) && y == (T)~(T)0); \
    if (is_signed && is_div) { expect_trap = trapIntOverflow; r = (T)(REAL); (void)r; V_ASSERT(0, #name ": MIN / -1 must trap"); } \
    else { r = (T)(REAL); V_ASSERT(r == (T)(is_signed ? 0 : (is_div ? 0 : (T)(MINV))), #name ": MIN op -1 value"); V_WITNESS("end"); } } \
void harness_##name##_norm(void) { T x = nd(), y = nd(); T r; V_ASSUME(y != 0); V_ASSUME(!(is_signed && x == (T)(MINV) && y == (T)~(T)0)); \
    r = (T)(REAL); V_ASSERT(r == (T)(CREF), #name " equals C99 truncating division on the specified view"); V_WITNESS("end"); }

DIVREM(i32_div_s, U32, I32, nd32, 0x80000000u, I32_DIV_S(x, y), (U32)((I32)x / (I32)y), 1, 1)
DIVREM(i32_rem_s, U32, I32, nd32, 0x80000000u, I32_REM_S(x, y), (U32)((I32)x % (I32)y), 1, 0)
DIVREM(i64_div_s, U64, I64, nd64, 0x8000000000000000ull, I64_DIV_S(x, y), (U64)((I64)x / (I64)y), 1, 1)
DIVREM(i64_rem_s, U64, I64, nd64, 0x8000000000000000ull, I64_REM_S(x, y), (U64)((I64)x % (I64)y), 1, 0)
DIVREM(i32_div_u, U32, I32, nd32, 0x80000000u, DIV_U(x, y), x / y, 0, 1)
DIVREM(i32_rem_u, U32, I32, nd32, 0x80000000u, REM_U(x, y), x % y, 0, 0)
DIVREM(i64_div_u, U64, I64, nd64, 0x8000000000000000ull, DIV_U(x, y), x / y, 0, 1)
DIVREM(i64_rem_u, U64, I64, nd64, 0x8000000000000000ull, REM_U(x, y), x % y, 0, 0)
