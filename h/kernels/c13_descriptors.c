/* C13: descriptor table histories.  Ghost state: which WASI numbers are live. */
#include "wasi_env.h"

#define MAXW 7
static int live[MAXW]; static U32 issued;   /* numbers < issued have been handed out */
static U32 pre_wfd;
static void setup(void) { bool ok; guest_init(); table_init(); live[0] = live[1] = live[2] = 1;
    ok = wasiFileDescriptorAdd(-1, "/d", &pre_wfd); V_ASSUME(ok); V_ASSERT(pre_wfd == 3, "first preopen is descriptor 3"); live[3] = 1; issued = 4; nlog = 0; }

static U32 do_open(void) { U32 pp = gptr(1), fp = gptr(4), r; gdata[pp] = 'f';
    r = wasi_snapshot_preview1__path_open(0, pre_wfd, 0, pp, 1, nd32() & 0xF, nd64(), 0, 0, fp);
    if (r == 0) { U32 n = (U32)gle(fp, 4); int k;
        V_ASSERT(n < MAXW, "harness: table small enough");
        V_ASSERT(n >= issued || !live[n], "descriptor returned by path_open does not alias a live descriptor");
        /* concretisation (stated bound): the rest of the history continues from the append-only numbering the table uses;
           other fresh numbers are cut here, after the aliasing assertion above has been decided for every n */
        V_ASSUME(n == issued);
        for (k = 0; k < MAXW; k++) if ((U32)k == n) live[k] = 1;
        if (n >= issued) issued = n + 1; return n; }
    return 0xFFFFFFFFu; }

/* one descriptor-taking call on number y; returns the WASI errno */
static U32 use(U32 op, U32 y) { U32 rp = gptr(64), rp2 = gptr(8);
    switch (op % 10) {
    case 0: return wasi_snapshot_preview1__fd_close(0, y);
    case 1: return wasi_snapshot_preview1__fd_read(0, y, gptr(0), 0, rp2);
    case 2: return wasi_snapshot_preview1__fd_seek(0, y, nd64(), nd32() % 3, rp2);
    case 3: return wasi_unstable__fd_tell(0, y, rp2);
    case 4: return wasi_snapshot_preview1__fd_filestat_get(0, y, rp);
    case 5: return wasi_snapshot_preview1__fd_fdstat_get(0, y, rp);
    case 6: return wasi_snapshot_preview1__fd_readdir(0, y, rp, 0, (U64)(nd8() % 3), rp2);
    case 7: return wasi_snapshot_preview1__fd_prestat_get(0, y, rp2);
    case 8: return wasi_snapshot_preview1__fd_prestat_dir_name(0, y, rp, 0);
    default: { U32 pp = gptr(1); gdata[pp] = 'g'; return wasi_unstable__path_open(0, y, 0, pp, 1, 0, nd64(), 0, 0, rp2); } } }

/* open, close, then any call on any number */
#ifndef OP
#define OP nd8()
#endif
void harness_use_after_close(void) { U32 n, r, y, op = OP; setup();
    n = do_open(); V_ASSUME(n != 0xFFFFFFFFu);
    r = wasi_snapshot_preview1__fd_close(0, n); V_ASSUME(r == 0); { int k; for (k = 0; k < MAXW; k++) if ((U32)k == n) live[k] = 0; }
    y = nd8() % (MAXW + 2); nlog = 0; stale_use = 0; dir_stale_use = 0;
    r = use(op, y);
    if (y >= issued || !live[y < MAXW ? y : 0]) {
        V_ASSERT(r == 8, "closed or never-issued descriptor: EBADF");
        V_ASSERT(nlog == 0, "closed or never-issued descriptor: no host call at all");
        V_WITNESS("dead descriptor path"); }
    V_ASSERT(!stale_use && !dir_stale_use, "no native call on a released native descriptor or DIR");
    V_WITNESS("end"); }

/* close a descriptor that has an open DIR (after a readdir), then use it */
void harness_dir_after_close(void) { U32 n, r, y, op = OP, bp, up; setup(); dir_n = 0;
    n = do_open(); V_ASSUME(n != 0xFFFFFFFFu); bp = gptr(32); up = gptr(4);
    r = wasi_snapshot_preview1__fd_readdir(0, n, bp, 0, 0, up); V_ASSUME(r == 0);
    r = wasi_snapshot_preview1__fd_close(0, n); V_ASSUME(r == 0);
    nlog = 0; stale_use = 0; dir_stale_use = 0;
    r = use(op, n);
    V_ASSERT(r == 8, "descriptor closed after listing: EBADF");
    V_ASSERT(nlog == 0 && !stale_use && !dir_stale_use, "descriptor closed after listing: no host call");
    V_WITNESS("end"); }

/* two opens, optionally a close in between, then a third open: numbers unique among live ones
 * (two straight-line variants: a branch around the close makes the heap state symbolic and exhausts memory) */
void harness_unique(void) { U32 a, b, c; setup();
    a = do_open(); V_ASSUME(a != 0xFFFFFFFFu);
    b = do_open(); V_ASSUME(b != 0xFFFFFFFFu); V_ASSERT(a != b, "two live descriptors differ");
    c = do_open(); V_ASSUME(c != 0xFFFFFFFFu); V_ASSERT(c != a && c != b, "a new descriptor never aliases a live one");
    V_WITNESS("end"); }
void harness_unique_close(void) { U32 a, c, r; setup();
    a = do_open(); V_ASSUME(a != 0xFFFFFFFFu);
    r = wasi_snapshot_preview1__fd_close(0, a); V_ASSUME(r == 0); live[a < MAXW ? a : 0] = 0;
    c = do_open(); V_ASSUME(c != 0xFFFFFFFFu); V_ASSERT(c > 3, "a descriptor issued after a close never aliases a live one (0-2, preopen)");
    V_WITNESS("end"); }

/* 0..2 are the host's standard streams */
void harness_stdio(void) { U32 y = nd8() % 3, r, ip = gptr(8), bp = gptr(4), rp = gptr(4); setup();
    V_ASSUME(rp + 4 <= ip || rp >= ip + 8); gput(ip, 4, bp); gput(ip + 4, 4, 4);
    r = wasi_snapshot_preview1__fd_write(0, y, ip, 1, rp);
    V_ASSERT(nlog == 1 && LOG[0].fn == F_WRITEV && LOG[0].a[0] == (long long)y, "descriptors 0-2 map to native 0-2"); (void)r;
    V_WITNESS("end"); }

/* pre-opened directory reports its path */
void harness_prestat(void) { U32 r, rp = gptr(8), np = gptr(8), len = nd8() % 9; U8 b0, b1, b2; setup();
    r = wasi_snapshot_preview1__fd_prestat_get(0, pre_wfd, rp);
    V_ASSERT(r == 0 && gle(rp, 4) == 0 && gle(rp + 4, 4) == 2, "prestat: tag 0 (directory) and the path length");
    b0 = gdata[np]; b1 = gdata[np + 1]; b2 = gdata[np + 2];
    V_ASSUME(np + 8 <= rp || np >= rp + 8);
    r = wasi_snapshot_preview1__fd_prestat_dir_name(0, pre_wfd, np, len);
    V_ASSERT(r == 0, "prestat_dir_name succeeds for a preopen");
    if (len >= 2) { V_ASSERT(gdata[np] == '/' && gdata[np + 1] == 'd', "prestat_dir_name stores the path bytes"); V_ASSERT(gdata[np + 2] == b2, "prestat_dir_name writes no byte beyond the path"); }
    if (len == 0) V_ASSERT(gdata[np] == b0 && gdata[np + 1] == b1, "zero-length buffer is not written");
    V_WITNESS("end"); }
#ifdef PROBE
void harness_p1(void) { U32 a; setup(); a = do_open(); V_ASSUME(a != 0xFFFFFFFFu); V_WITNESS("end"); }
void harness_p2(void) { U32 a, b; setup(); a = do_open(); V_ASSUME(a != 0xFFFFFFFFu); b = do_open(); V_ASSUME(b != 0xFFFFFFFFu); V_WITNESS("end"); }
#endif

/* ---------------------------------------------------------------- one step from any reachable table shape
 * The table is built with the real wasiFileDescriptorAdd: three standard streams, the preopen, and TL-4 further
 * slots of which those selected by the compile-time mask TMASK are live files (native fd 100+k, own path) and the
 * others are closed slots (exactly the state fd_close leaves: no native fd, no DIR, no path).  Capacity therefore
 * follows the real growth policy (1,2,4,7,11): TL = 4, 7, 11 are the "table exactly full" shapes.  Then ONE call with
 * arbitrary arguments; every earlier history that ends in this shape is covered by the step. */
#ifndef TL
#define TL 7
#endif
#ifndef TMASK
#define TMASK 5
#endif
#define TMAX 13
static int s_live[TMAX]; static int s_fd[TMAX]; static char* s_path[TMAX]; static DIR* s_dir[TMAX];
static void shape(void) { int k; U32 w; bool ok; setup();
    for (k = 4; k < TL; k++) {
        if ((TMASK >> (k - 4)) & 1) { ok = wasiFileDescriptorAdd(100 + k, "/d/x", &w); } else { ok = wasiFileDescriptorAdd(-1, NULL, &w); }
        V_ASSUME(ok); V_ASSERT(w == (U32)k, "harness: slots are numbered in order"); }
    V_ASSERT(wasi.fds.length == TL, "harness: table length");
    for (k = 0; k < TMAX; k++) { s_live[k] = 0; s_fd[k] = -1; s_path[k] = 0; s_dir[k] = 0; }
    for (k = 0; k < TL; k++) { s_live[k] = k < 4 || ((TMASK >> (k - 4)) & 1); s_fd[k] = wasi.fds.fds[k].fd; s_path[k] = wasi.fds.fds[k].path; s_dir[k] = wasi.fds.fds[k].dir; }
    nlog = 0; stale_use = 0; }
static void others_untouched(U32 except) { int k;
    for (k = 0; k < TL; k++) if ((U32)k != except && s_live[k]) {
        V_ASSERT((U32)k < wasi.fds.length, "a live descriptor stays in the table");
        V_ASSERT(wasi.fds.fds[k].fd == s_fd[k] && wasi.fds.fds[k].path == s_path[k] && wasi.fds.fds[k].dir == s_dir[k], "a live descriptor keeps its native fd, path and DIR across another descriptor's open/close"); } }
void harness_step_open(void) { U32 pp, fp, r; int nfd; shape(); pp = gptr(1); fp = gptr(4); gdata[pp] = 'f';
    r = wasi_snapshot_preview1__path_open(0, pre_wfd, 0, pp, 1, nd32() & 0xF, nd64(), 0, 0, fp);
    if (r == 0) { U32 n = (U32)gle(fp, 4); WasiFileDescriptor d;
        V_ASSERT(n < wasi.fds.length && wasi.fds.length <= wasi.fds.capacity, "returned number lies inside the table");
        V_ASSERT(n >= TL || !s_live[n < TMAX ? n : 0], "descriptor returned by path_open does not alias a live descriptor");
        nfd = next_native_fd - 1;
        V_ASSERT(wasiFileDescriptorGet(n, &d) && d.fd == nfd, "the returned number designates the file that was just opened");
        others_untouched(n);
        V_WITNESS("opened"); }
    else others_untouched(0xFFFFFFFFu);
    V_ASSERT(!stale_use, "no native call on a released native descriptor");
    V_WITNESS("end"); }
#ifndef TY
#define TY 5
#endif
void harness_step_close(void) { U32 r; WasiFileDescriptor d; shape();
    r = wasi_snapshot_preview1__fd_close(0, TY);
    if (TY < TL && s_live[TY < TMAX ? TY : 0]) {
        if (r == 0) { V_ASSERT(!wasiFileDescriptorGet(TY, &d), "a closed descriptor is invalid afterwards"); V_WITNESS("closed"); }
        others_untouched(TY); }
    else { V_ASSERT(r == 8 && nlog == 0, "closed or never-issued descriptor: EBADF, no host call"); others_untouched(0xFFFFFFFFu); V_WITNESS("dead"); }
    V_WITNESS("end"); }
