/* C14: path resolution, path operations, directory listing. */
#include "wasi_env.h"

/* ---------------------------------------------------------------- resolvePath on its own */
void harness_resolve(void) { char dir[VH_PATH_MAX]; char result[PATH_MAX]; U32 dl = nd8(), pl = nd8(), pp, k; bool ok; U32 jl;
    int slash;
    guest_init(); V_ASSUME(dl >= 1 && dl < VH_PATH_MAX); V_ASSUME(pl <= 2 * VH_PATH_MAX);
    for (k = 0; k < VH_PATH_MAX; k++) { dir[k] = (char)nd8(); if (k < dl) V_ASSUME(dir[k] != 0); } dir[dl] = 0;
    pp = gptr(pl);   /* the guest path is NOT NUL-terminated: the byte after it is arbitrary guest memory */
    ok = resolvePath(dir, (char*)gdata + pp, pl, result);
    if (pl == 0) { V_ASSERT(!ok, "empty path is rejected"); V_WITNESS("empty"); return; }
    if (gdata[pp] == '/') { jl = pl;
        if (ok) { V_ASSERT(jl < PATH_MAX, "absolute path accepted only if it fits"); for (k = 0; k < PATH_MAX; k++) if (k < jl) V_ASSERT(result[k] == (char)gdata[pp + k], "absolute guest path is used as is");
            V_ASSERT(result[jl] == 0, "result is NUL-terminated"); V_WITNESS("absolute ok"); }
        else V_ASSERT(jl >= PATH_MAX - 1, "absolute path rejected only if it would not fit the host path limit");
    } else { slash = dir[dl - 1] != '/'; jl = dl + (slash ? 1 : 0) + pl;
        if (ok) { V_ASSERT(jl < PATH_MAX, "relative path accepted only if directory + separator + path fits");
            for (k = 0; k < PATH_MAX; k++) { if (k < dl) V_ASSERT(result[k] == dir[k], "result starts with the directory path"); }
            if (slash) V_ASSERT(result[dl] == '/', "separator inserted when the directory does not end with one");
            for (k = 0; k < PATH_MAX; k++) if (k < pl) V_ASSERT(result[dl + (slash ? 1 : 0) + k] == (char)gdata[pp + k], "result continues with the guest path");
            V_ASSERT(result[jl] == 0, "result is NUL-terminated"); V_WITNESS("relative ok"); }
        else V_ASSERT(jl >= PATH_MAX - 2, "relative path rejected only if it would not fit the host path limit (margin of the implementation: 1)");
    }
    V_WITNESS("end"); }

/* ---------------------------------------------------------------- path operations */
#ifndef POP
#define POP 0
#endif
static char dirstr[VH_PATH_MAX]; static U32 dirlen; static U32 pre;
static void setup_dir(U32 maxlen) { U32 k; bool ok; guest_init(); table_init(); dirlen = nd8(); V_ASSUME(dirlen >= 1 && dirlen <= maxlen);
    for (k = 0; k < VH_PATH_MAX; k++) { dirstr[k] = (char)nd8(); if (k < dirlen) V_ASSUME(dirstr[k] != 0); } dirstr[0] = '/'; dirstr[dirlen] = 0;
    ok = wasiFileDescriptorAdd(-1, dirstr, &pre); V_ASSUME(ok); nlog = 0; }
/* expected join; returns length or -1 if it cannot be accepted */
static int expect_join(U32 pp, U32 pl, char* out) { U32 k, n = 0;
    if (pl == 0) return -1;
    if (gdata[pp] == '/') { if (pl >= PATH_MAX) return -1; for (k = 0; k < PATH_MAX; k++) if (k < pl) out[n++] = (char)gdata[pp + k]; out[n] = 0; return (int)n; }
    if (dirlen + 1 + pl + 1 > PATH_MAX) return -1;
    for (k = 0; k < VH_PATH_MAX; k++) if (k < dirlen) out[n++] = dirstr[k];
    if (dirstr[dirlen - 1] != '/') out[n++] = '/';
    for (k = 0; k < PATH_MAX; k++) if (k < pl) out[n++] = (char)gdata[pp + k];
    out[n] = 0; return (int)n; }
#define same_path(slot, want, wl, what) do { int k_; V_ASSERT(cap_len[slot] == (wl), what); \
    for (k_ = 0; k_ < PATH_MAX; k_++) if (k_ < (wl)) V_ASSERT(cap_path[slot][k_] == (want)[k_], what); } while (0)

void harness_pathop(void) { U32 pl = nd8(), pp, r = 0, sp, lp; char want[PATH_MAX + 4]; int wl, fn = 0; U32 k;
    setup_dir(5); V_ASSUME(pl <= PATH_MAX + 2); pp = gptr(pl); sp = gptr(64); lp = gptr(4);
    for (k = 0; k < PATH_MAX + 2; k++) if (k < pl) V_ASSUME(gdata[pp + k] != 0);   /* a guest path has no embedded NUL */
    wl = expect_join(pp, pl, want);
    switch (POP) {
    case 0: r = wasi_snapshot_preview1__path_create_directory(0, pre, pp, pl); fn = F_MKDIR; break;
    case 1: r = wasi_snapshot_preview1__path_remove_directory(0, pre, pp, pl); fn = F_RMDIR; break;
    case 2: r = wasi_unstable__path_unlink_file(0, pre, pp, pl); fn = F_UNLINK; break;
    case 3: r = wasi_snapshot_preview1__path_filestat_get(0, pre, nd32() & 1, pp, pl, sp); fn = -1; break;
    default: r = wasi_snapshot_preview1__path_readlink(0, pre, pp, pl, sp, nd8() % 33, lp); fn = F_READLINK; break; }
    if (nlog == 0) { V_ASSERT(r == 28, "a path that is not handed to the host is rejected with EINVAL");
        V_ASSERT(wl < 0 || wl >= PATH_MAX - 2, "rejected only if empty or too long for the host path limit"); V_WITNESS("rejected"); }
    else { V_ASSERT(nlog == 1 && (fn < 0 ? (LOG[0].fn == F_STAT || LOG[0].fn == F_LSTAT) : LOG[0].fn == fn), "exactly the corresponding host operation is performed");
        V_ASSERT(wl >= 0, "host operation only for an acceptable path"); same_path(0, want, wl, "host operation receives the resolved path");
        if (r != 0) V_ASSERT((int)r == spec_errno(errno), "error code is the WASI translation of errno"); else V_WITNESS("success");
        V_WITNESS("performed"); }
    V_WITNESS("end"); }

/* old path relative to one directory descriptor, new path relative to ANOTHER one (fixed path "/q") */
static int expect_join2(U32 pp, U32 pl, char* out) { U32 k, n = 0; if (pl == 0) return -1;
    if (gdata[pp] == '/') { if (pl >= PATH_MAX) return -1; for (k = 0; k < PATH_MAX; k++) if (k < pl) out[n++] = (char)gdata[pp + k]; out[n] = 0; return (int)n; }
    if (2 + 1 + pl + 1 > PATH_MAX) return -1; out[n++] = '/'; out[n++] = 'q'; out[n++] = '/';
    for (k = 0; k < PATH_MAX; k++) if (k < pl) out[n++] = (char)gdata[pp + k]; out[n] = 0; return (int)n; }
void harness_rename(void) { U32 pl1 = nd8(), pl2 = nd8(), p1, p2, r, pre2; char w1[PATH_MAX + 4], w2[PATH_MAX + 4]; int l1, l2; U32 k; bool ok;
    setup_dir(4); ok = wasiFileDescriptorAdd(-1, "/q", &pre2); V_ASSUME(ok); nlog = 0;
    V_ASSUME(pl1 <= PATH_MAX + 1 && pl2 <= PATH_MAX + 1); p1 = gptr(pl1); p2 = gptr(pl2);
    for (k = 0; k < PATH_MAX + 1; k++) { if (k < pl1) V_ASSUME(gdata[p1 + k] != 0); if (k < pl2) V_ASSUME(gdata[p2 + k] != 0); }
    l1 = expect_join(p1, pl1, w1); l2 = expect_join2(p2, pl2, w2);
    r = wasi_snapshot_preview1__path_rename(0, pre, p1, pl1, pre2, p2, pl2);
    if (nlog == 0) { V_ASSERT(r == 28 && (l1 < 0 || l2 < 0 || l1 >= PATH_MAX - 2 || l2 >= PATH_MAX - 2), "rename rejected only for an unacceptable path"); V_WITNESS("rejected"); }
    else { V_ASSERT(nlog == 1 && LOG[0].fn == F_RENAME && l1 >= 0 && l2 >= 0, "exactly one rename on the host"); same_path(0, w1, l1, "rename source is the old path resolved against the OLD directory descriptor"); same_path(1, w2, l2, "rename target is the new path resolved against the NEW directory descriptor");
        if (r != 0) V_ASSERT((int)r == spec_errno(errno), "error code is the WASI translation of errno"); V_WITNESS("performed"); }
    V_WITNESS("end"); }

void harness_symlink(void) { U32 pl1 = nd8(), pl2 = nd8(), p1, p2, r; char w2[PATH_MAX + 4]; int l2; U32 k;
    setup_dir(4); V_ASSUME(pl1 <= PATH_MAX + 1 && pl2 <= PATH_MAX + 1); p1 = gptr(pl1); p2 = gptr(pl2);
    for (k = 0; k < PATH_MAX + 1; k++) { if (k < pl1) V_ASSUME(gdata[p1 + k] != 0); if (k < pl2) V_ASSUME(gdata[p2 + k] != 0); }
    l2 = expect_join(p2, pl2, w2);
    r = wasi_snapshot_preview1__path_symlink(0, p1, pl1, pre, p2, pl2);
    if (nlog == 0) { V_ASSERT(r == 28, "symlink rejected with EINVAL"); V_ASSERT(pl1 >= PATH_MAX || l2 < 0 || l2 >= PATH_MAX - 2, "symlink rejected only for an unacceptable path"); V_WITNESS("rejected"); }
    else { V_ASSERT(nlog == 1 && LOG[0].fn == F_SYMLINK && l2 >= 0, "exactly one symlink on the host"); V_ASSERT(cap_len[0] == (int)pl1, "symlink contents are the guest's old path, unresolved");
        for (k = 0; k < PATH_MAX; k++) if (k < pl1) V_ASSERT(cap_path[0][k] == (char)gdata[p1 + k], "symlink contents are the guest's old path, unresolved");
        same_path(1, w2, l2, "symlink is created at the resolved new path"); V_WITNESS("performed"); }
    V_WITNESS("end"); }

/* ---------------------------------------------------------------- directory listing */
static U32 dwfd; static U32 nlen[DENT];
#ifndef DN
#define DN (nd8() % (DENT + 1))
#endif
static const unsigned char known_types[5] = { DT_CHR, DT_DIR, DT_REG, DT_LNK, DT_BLK };
/* entry k has a name of k+1 bytes (symbolic content), symbolic inode, and one of the host entry types that need no lstat */
static void setup_listing(U32 maxdir) { U32 k, j; setup_dir(maxdir); dir_n = DN;
    for (k = 0; k < DENT; k++) { nlen[k] = k + 1; dir_ent[k].d_ino = nd64(); dir_ent[k].d_type = known_types[nd8() % 5];
        for (j = 0; j < 4; j++) { dir_ent[k].d_name[j] = (char)('a' + (nd8() % 20)); } dir_ent[k].d_name[nlen[k]] = 0; }
    dwfd = pre; nlog = 0; }
static int dtype_to_wasi(unsigned char t, int* needs_lstat) { *needs_lstat = 0;
    switch (t) { case DT_CHR: return 2; case DT_DIR: return 3; case DT_REG: return 4; case DT_LNK: return 7; case DT_BLK: return 1; default: *needs_lstat = 1; return 0; } }

/* one call with a buffer that holds everything: every entry once, in order, specified layout */
void harness_readdir_all(void) { U32 bp, up, r, used, k, off = 0; setup_listing(4); bp = gptr(96); up = gptr(4); V_ASSUME(up + 4 <= bp || up >= bp + 96);
    r = wasi_snapshot_preview1__fd_readdir(0, dwfd, bp, 96, 0, up);
    if (r != 0) { V_WITNESS("error path"); return; }
    used = (U32)gle(up, 4);
    for (k = 0; k < DENT; k++) if (k < (U32)dir_n) { int nl, t = dtype_to_wasi(dir_ent[k].d_type, &nl); U32 j;
        V_ASSERT(gle(bp + off, 8) == (U64)(k + 1), "dirent.d_next u64 @0 is the cookie of the following entry");
        V_ASSERT(gle(bp + off + 8, 8) == (U64)dir_ent[k].d_ino, "dirent.d_ino u64 @8");
        V_ASSERT(gle(bp + off + 16, 4) == nlen[k], "dirent.d_namlen u32 @16");
        if (!nl) V_ASSERT(gdata[bp + off + 20] == t, "dirent.d_type u8 @20 translated from the host entry type");
        for (j = 0; j < 3; j++) if (j < nlen[k]) V_ASSERT(gdata[bp + off + 24 + j] == (U8)dir_ent[k].d_name[j], "name bytes follow the 24-byte header");
        off += 24 + nlen[k]; }
    V_ASSERT(used == off, "bufferUsed is the sum of the entries: every entry delivered exactly once");
    V_WITNESS("end"); }

/* second call on the already open directory with a cookie: resumes there; cookie 0 restarts from the beginning */
void harness_readdir_resume(void) { U32 bp, up, r, cookie = nd8(), first; setup_listing(4); bp = gptr(48); up = gptr(4); V_ASSUME(up + 4 <= bp || up >= bp + 48);
    V_ASSUME(dir_n >= 2); V_ASSUME(cookie < (U32)dir_n);
    r = wasi_snapshot_preview1__fd_readdir(0, dwfd, bp, 25, 0, up); V_ASSUME(r == 0);       /* opens the stream, consumes the first entry (24 + 1 byte name) and reads on */
    r = wasi_snapshot_preview1__fd_readdir(0, dwfd, bp, 26, (U64)cookie, up); V_ASSUME(r == 0);
    V_ASSUME(gle(up, 4) >= 24);
    first = (U32)gle(bp, 8) - 1;    /* index of the first entry delivered by the second call */
    V_ASSERT(first == cookie, "listing resumes at the entry named by the cookie; cookie 0 restarts from the first entry");
    V_ASSERT(gle(bp + 8, 8) == (U64)dir_ent[cookie < DENT ? cookie : 0].d_ino, "resumed entry is the right one");
    V_WITNESS("end"); }

/* buffer ends inside an entry: buffer reported full, header carries the real name length */
void harness_readdir_truncated(void) { U32 bp, up, r, bl = nd8(); setup_listing(4); bp = gptr(32); up = gptr(4); V_ASSUME(up + 4 <= bp || up >= bp + 32);
    V_ASSUME(dir_n >= 1); V_ASSUME(bl <= 24 + nlen[0] - 1);
    r = wasi_snapshot_preview1__fd_readdir(0, dwfd, bp, bl, 0, up); V_ASSUME(r == 0);
    V_ASSERT(gle(up, 4) == bl, "an entry that does not fit completely makes the call report the buffer as full (more entries follow)");
    if (bl >= 24) { V_ASSERT(gle(bp + 16, 4) == nlen[0], "truncated entry still reports its real name length"); V_WITNESS("header written"); }
    V_WITNESS("end"); }

/* entry type unknown -> lstat(directory + / + name): path built within the host path limit */
void harness_readdir_lstat(void) { U32 bp, up, r; setup_listing(VH_PATH_MAX - 1); bp = gptr(40); up = gptr(4); V_ASSUME(up + 4 <= bp || up >= bp + 40);
    V_ASSUME(dir_n >= 1); dir_ent[0].d_type = DT_UNKNOWN;
    r = wasi_snapshot_preview1__fd_readdir(0, dwfd, bp, 40, 0, up);
    if (count_fn(F_LSTAT) > 0) { V_ASSERT(cap_len[0] == (int)(dirlen + 1 + nlen[0]) || dirstr[dirlen - 1] == '/', "lstat path is directory + separator + entry name"); V_WITNESS("lstat used"); }
    (void)r; V_WITNESS("end"); }
