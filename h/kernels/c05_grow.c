/* C05 kernel: size arithmetic of the real wasmMemoryGrow / wasmMemoryAllocate with the REAL page size (65536).
 * realloc/calloc/memset are recording stubs: requested sizes are kept as 64-bit integers, so a 32-bit wrap of
 * pages*65536 or a memset outside the new block becomes visible without allocating gigabytes. */
#include "vh.h"
#include <stddef.h>
#include <stdint.h>
static unsigned long long req_size; static int realloc_calls; static unsigned char block[8]; static int realloc_fails;
static unsigned long long ms_off, ms_len; static int memset_calls; static int bad_memset;
static void* vh_realloc(void* p, size_t n) { (void)p; req_size = (unsigned long long)n; realloc_calls++; if (realloc_fails) return (void*)0; return block; }
static void* vh_memset(void* d, int c, size_t n) { (void)c; memset_calls++; ms_off = (unsigned long long)((uintptr_t)d - (uintptr_t)block); ms_len = (unsigned long long)n; return d; }
#include <stdlib.h>
#include <string.h>
#define realloc vh_realloc
#define memset vh_memset
#include "w2c2_base.h"
void trap(Trap t) { (void)t; V_STOP(); }
void harness_grow(void) { wasmMemory m; U32 p0 = nd32(), mx = nd32(), delta = nd32(), r; unsigned long long np;
    V_ASSUME(p0 <= mx && mx <= 65536u);       /* a valid memory type: at most 65536 pages */
    m.data = block; m.pages = p0; m.maxPages = mx; m.size = p0 * WASM_PAGE_SIZE; m.shared = false; m.futex = 0; m.futexFree = 0;
    realloc_fails = 0;
    r = wasmMemoryGrow(&m, delta);
    np = (unsigned long long)p0 + delta;
    if (np > mx) { V_ASSERT(r == 0xFFFFFFFFu && m.pages == p0 && realloc_calls == 0, "grow beyond the declared maximum (or the 32-bit page count) fails with -1 and changes nothing"); V_WITNESS("refused"); }
    else if (r != 0xFFFFFFFFu) { V_ASSERT(r == p0 && m.pages == (U32)np, "successful grow returns the old size and sets the new page count");
        if (np != p0 || realloc_calls) { V_ASSERT(req_size == np * 65536ull, "the block is resized to exactly pages * 65536 bytes (no 32-bit wrap)");
            V_ASSERT((unsigned long long)m.size == np * 65536ull, "byte size field equals pages * 65536");
            if (memset_calls) V_ASSERT(ms_off == (unsigned long long)p0 * 65536ull && ms_len == (unsigned long long)delta * 65536ull && ms_off + ms_len <= req_size, "exactly the new pages are zeroed, inside the new block"); }
        V_WITNESS("grown"); }
    else { V_ASSERT(m.pages == p0, "a refused grow changes nothing"); V_WITNESS("refused within limits (allowed: resources)"); }
    V_WITNESS("end"); }
