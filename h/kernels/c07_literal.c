/* C07 kernel: the real wasmCWriteLiteral (c.c) + stringbuilder.c for ALL bit patterns of a type. */
#include "vh.h"
#include "sprintf_model.h"
#include "c.c"
#include "stringbuilder.c"

static int starts(const char* s, const char* p) { int k; for (k = 0; k < 32; k++) { if (!p[k]) return k; if (s[k] != p[k]) return -1; } return -1; }
static int hexval(char c) { if (c >= '0' && c <= '9') return c - '0'; if (c >= 'A' && c <= 'F') return c - 'A' + 10; return -1; }
static int is_fill(const char* s, int from, int* end) { int k, n = 0; for (k = 0; k < 26; k++) { if (s[from + k] == '#') n++; else break; } *end = from + n; return n; }

static void check_float(int width, unsigned long long bits, const char* s, size_t len) {
    unsigned long long expmask = width == 32 ? 0x7f800000ull : 0x7ff0000000000000ull;
    unsigned long long manmask = width == 32 ? 0x007fffffull : 0x000fffffffffffffull;
    unsigned long long sign = width == 32 ? 0x80000000ull : 0x8000000000000000ull;
    int isnan = (bits & expmask) == expmask && (bits & manmask) != 0;
    int isinf = (bits & expmask) == expmask && (bits & manmask) == 0;
    int p;
    const char* pre = width == 32 ? "f32_reinterpret_i32(0x" : "f64_reinterpret_i64(0x";
    if ((p = starts(s, pre)) > 0) {
        unsigned long long v = 0; int k, nd = width / 4;
        for (k = 0; k < 16; k++) if (k < nd) { int h = hexval(s[p + k]); V_ASSERT(h >= 0, "hex literal has only hex digits"); v = (v << 4) | (unsigned)h; }
        V_ASSERT(s[p + nd] == ')' && s[p + nd + 1] == 0, "reinterpret literal is closed after the hex digits");
        V_ASSERT(v == bits, "hex literal reproduces every bit of the constant");
        V_ASSERT(len == (size_t)(p + nd + 1), "builder length matches text");
        return;
    }
    if (starts(s, "-INFINITY") > 0) { V_ASSERT(s[9] == 0 && isinf && (bits & sign), "-INFINITY only for negative infinity"); return; }
    if (starts(s, "INFINITY") > 0) { V_ASSERT(s[8] == 0 && isinf && !(bits & sign), "INFINITY only for positive infinity"); return; }
    if (starts(s, "-0.f") > 0) { V_ASSERT(s[4] == 0 && bits == sign, "-0.f only for negative zero"); return; }
    {
        int end; int n = is_fill(s, 0, &end);
        V_ASSERT(n > 0 && s[end] == 0, "decimal literal is exactly one %g conversion");
        V_ASSERT(sp_kind == (width == 32 ? SP_G9 : SP_G17), "decimal literal uses 9 (f32) / 17 (f64) significant digits");
        V_ASSERT(!isnan && !isinf && bits != sign, "decimal path only for finite values other than -0");
        if (width == 32) { float f; unsigned b32 = (unsigned)bits; memcpy(&f, &b32, 4); V_ASSERT(sp_dval == (double)f, "value printed is the constant"); }
        else { double d; memcpy(&d, &bits, 8); V_ASSERT(sp_dval == d, "value printed is the constant"); }
    }
}

void harness_f32(void) { StringBuilder b = emptyStringBuilder; WasmValue v; U32 bits = nd32(); bool ok;
    memset(&v, 0, sizeof v); v.i32 = (I32)bits;
    ok = stringBuilderInitialize(&b); V_ASSUME(ok);
    ok = wasmCWriteLiteral(&b, wasmValueTypeF32, v); V_ASSERT(ok, "literal writer succeeds");
    check_float(32, bits, b.string, b.length); V_WITNESS("end"); }
void harness_f64(void) { StringBuilder b = emptyStringBuilder; WasmValue v; U64 bits = nd64(); bool ok;
    v.i64 = (I64)bits;
    ok = stringBuilderInitialize(&b); V_ASSUME(ok);
    ok = wasmCWriteLiteral(&b, wasmValueTypeF64, v); V_ASSERT(ok, "literal writer succeeds");
    check_float(64, bits, b.string, b.length); V_WITNESS("end"); }
void harness_i32(void) { StringBuilder b = emptyStringBuilder; WasmValue v; U32 bits = nd32(); bool ok; int end, n;
    memset(&v, 0, sizeof v); v.i32 = (I32)bits;
    ok = stringBuilderInitialize(&b); V_ASSUME(ok);
    ok = wasmCWriteLiteral(&b, wasmValueTypeI32, v); V_ASSERT(ok, "literal writer succeeds");
    n = is_fill(b.string, 0, &end);
    V_ASSERT(n > 0 && b.string[end] == 'U' && b.string[end + 1] == 0, "i32 literal is <decimal>U");
    /* C: -dddU is unary minus on an unsigned int literal: value (U32)v for %i of v; dddU: (U32)v */
    V_ASSERT((sp_kind == SP_I32 || sp_kind == SP_U32) && (U32)sp_ival == bits, "i32 literal denotes the constant modulo 2^32");
    V_WITNESS("end"); }
void harness_i64(void) { StringBuilder b = emptyStringBuilder; WasmValue v; U64 bits = nd64(); bool ok; int end, n, p;
    v.i64 = (I64)bits;
    ok = stringBuilderInitialize(&b); V_ASSUME(ok);
    ok = wasmCWriteLiteral(&b, wasmValueTypeI64, v); V_ASSERT(ok, "literal writer succeeds");
    p = starts(b.string, "W2C2_LL("); V_ASSERT(p == 8, "i64 literal is wrapped in W2C2_LL(");
    n = is_fill(b.string, 8, &end);
    V_ASSERT(n > 0 && b.string[end] == 'U' && b.string[end + 1] == ')' && b.string[end + 2] == 0, "i64 literal is W2C2_LL(<decimal>U)");
    V_ASSERT((sp_kind == SP_I64 || sp_kind == SP_U64) && (U64)sp_ival == bits, "i64 literal denotes the constant modulo 2^64");
    V_WITNESS("end"); }
