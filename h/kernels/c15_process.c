/* C15: args/environ, clocks, random, exit, thread spawn. */
#include "wasi_env.h"

/* ---------------------------------------------------------------- args / environ */
#define NS 3
static char strs[NS + 1][4]; static char* vec[NS + 2]; static U32 slen[NS + 1]; static int vcount;
static void make_vec(int extra_after) { int k, j; vcount = nd8() % (NS + 1);
    for (k = 0; k < NS + 1; k++) { slen[k] = nd8() % 4; for (j = 0; j < 3; j++) { strs[k][j] = (char)nd8(); if ((U32)j < slen[k]) V_ASSUME(strs[k][j] != 0); } strs[k][slen[k]] = 0; vec[k] = strs[k]; }
    vec[NS + 1] = 0;
    /* environment vectors end with NULL; an argument vector is described by its count, what follows is not part of it */
    if (!extra_after) vec[vcount] = 0; }
static void check_strings(U32 bufp, U32 ptrp) { U32 off = 0; int k; U32 j;
    for (k = 0; k < NS; k++) if (k < vcount) { V_ASSERT(gle(ptrp + 4 * (U32)k, 4) == bufp + off, "pointer array entry k points at string k");
        for (j = 0; j < 3; j++) if (j < slen[k]) V_ASSERT(gdata[bufp + off + j] == (U8)strs[k][j], "string bytes copied");
        V_ASSERT(gdata[bufp + off + slen[k]] == 0, "strings are NUL-terminated"); off += slen[k] + 1; } }
static U32 total(void) { U32 t = 0; int k; for (k = 0; k < NS; k++) if (k < vcount) t += slen[k] + 1; return t; }

void harness_args(void) { U32 cp, sp, r, bufp, ptrp, guard; U8 g; bool ok; guest_init(); make_vec(1); ok = wasiInit(vcount, vec, empty_envp); V_ASSUME(ok);
    cp = gptr(4); sp = gptr(4); V_ASSUME(cp + 4 <= sp || sp + 4 <= cp);
    r = wasi_snapshot_preview1__args_sizes_get(0, cp, sp);
    V_ASSERT(r == 0 && gle(cp, 4) == (U64)vcount, "args_sizes_get: argument count given at initialisation");
    V_ASSERT(gle(sp, 4) == total(), "args_sizes_get: total size is the sum of the lengths + terminators of exactly argc strings");
    bufp = gptr(total() + 1); ptrp = gptr(4 * (U32)vcount); V_ASSUME(bufp + total() + 1 <= ptrp || ptrp + 4 * (U32)vcount <= bufp);
    guard = bufp + total(); g = gdata[guard];
    r = wasi_snapshot_preview1__args_get(0, ptrp, bufp);
    V_ASSERT(r == 0, "args_get succeeds"); check_strings(bufp, ptrp);
    if (guard < ptrp || guard >= ptrp + 4 * (U32)vcount) V_ASSERT(gdata[guard] == g, "no byte beyond the described buffer is written");
    V_WITNESS("end"); }
void harness_environ(void) { U32 cp, sp, r, bufp, ptrp, guard; U8 g; bool ok; guest_init(); make_vec(0); ok = wasiInit(0, empty_envp, vec); V_ASSUME(ok);
    cp = gptr(4); sp = gptr(4); V_ASSUME(cp + 4 <= sp || sp + 4 <= cp);
    r = wasi_unstable__environ_sizes_get(0, cp, sp);
    V_ASSERT(r == 0 && gle(cp, 4) == (U64)vcount, "environ_sizes_get: number of environment strings");
    V_ASSERT(gle(sp, 4) == total(), "environ_sizes_get: total size");
    bufp = gptr(total() + 1); ptrp = gptr(4 * (U32)vcount); V_ASSUME(bufp + total() + 1 <= ptrp || ptrp + 4 * (U32)vcount <= bufp);
    guard = bufp + total(); g = gdata[guard];
    r = wasi_unstable__environ_get(0, ptrp, bufp);
    V_ASSERT(r == 0, "environ_get succeeds"); check_strings(bufp, ptrp);
    if (guard < ptrp || guard >= ptrp + 4 * (U32)vcount) V_ASSERT(gdata[guard] == g, "no byte beyond the described buffer is written");
    V_WITNESS("end"); }

/* ---------------------------------------------------------------- clocks */
void harness_clock(void) { U32 id = nd32(), rp, r; clockid_t want; guest_init(); table_init(); nlog = 0; rp = gptr(8);
    r = wasi_snapshot_preview1__clock_time_get(0, id, nd64(), rp);
    if (id > 3) { V_ASSERT(r == 28 && nlog == 0, "unknown clock identifier: EINVAL, no host call"); V_WITNESS("unknown id"); return; }
    want = id == 0 ? CLOCK_REALTIME : id == 1 ? CLOCK_MONOTONIC : id == 2 ? CLOCK_PROCESS_CPUTIME_ID : CLOCK_THREAD_CPUTIME_ID;
    V_ASSERT(nlog == 1 && LOG[0].fn == F_CLOCK_GETTIME && LOG[0].a[0] == (long long)want, "the requested clock is read");
    if (r == 0) { V_ASSERT(gle(rp, 8) == (U64)((long long)clk_given.tv_sec * 1000000000ll + (long long)clk_given.tv_nsec), "nanoseconds = seconds * 10^9 + ns, stored little-endian"); V_WITNESS("success"); }
    else V_ASSERT((int)r == spec_errno(errno), "error code is the WASI translation of errno");
    V_WITNESS("end"); }
void harness_clock_monotonic(void) { U32 rp1, rp2, r1, r2; guest_init(); table_init(); rp1 = gptr(8); rp2 = gptr(8); V_ASSUME(rp1 + 8 <= rp2 || rp2 + 8 <= rp1);
    r1 = wasi_snapshot_preview1__clock_time_get(0, 1, nd64(), rp1); r2 = wasi_unstable__clock_time_get(0, 1, nd64(), rp2);   /* any precision arguments */
    if (r1 == 0 && r2 == 0) { V_ASSERT(gle(rp2, 8) >= gle(rp1, 8), "monotonic clock is non-decreasing across calls"); V_WITNESS("both ok"); }
    V_WITNESS("end"); }
void harness_clock_res(void) { U32 id = nd32(), rp, r; guest_init(); table_init(); nlog = 0; rp = gptr(8);
    r = wasi_snapshot_preview1__clock_res_get(0, id, rp);
    if (id > 3) { V_ASSERT(r == 28 && nlog == 0, "unknown clock identifier: EINVAL"); V_WITNESS("unknown id"); return; }
    if (r == 0) { V_ASSERT(gle(rp, 8) == (U64)clk_given.tv_nsec, "resolution in nanoseconds"); V_WITNESS("success"); }
    V_WITNESS("end"); }

/* ---------------------------------------------------------------- random_get: every byte of the range, none outside, success for any length */
void harness_random(void) { U32 len = nd16(), bp, r; guest_init(); table_init(); nlog = 0; V_ASSUME(len <= 300); bp = nd16(); V_ASSUME((U64)bp + len <= GMEM);
    r = wasi_snapshot_preview1__random_get(0, bp, len);
    V_ASSERT(r == 0, "random_get succeeds for any length");
    if (len > 0) { V_ASSERT(ent_lo == gdata + bp && ent_hi == gdata + bp + len, "random bytes cover exactly the requested range");
        V_ASSERT(ent_calls == (int)((len + 255) / 256), "range filled in chunks the host accepts, without gaps or overlap"); }
    else V_ASSERT(ent_lo == 0 || ent_hi == ent_lo, "zero length: nothing written");
    V_WITNESS("end"); }

/* ---------------------------------------------------------------- proc_exit */
void harness_exit(void) { U32 code = nd32(); guest_init(); table_init(); nlog = 0;
    wasi_snapshot_preview1__proc_exit(0, code);
    V_ASSERT(0, "proc_exit does not return"); }
/* exit stub asserts nothing by itself; the witness inside it must be reachable and the status is checked here */
void harness_exit_status(void) { U32 code = nd32(); guest_init(); table_init(); nlog = 0; exit_status = -1;
    if (nd8() & 1) { wasi_unstable__proc_exit(0, code); }
    V_ASSERT(exit_called == 0, "exit is only reached through proc_exit"); V_WITNESS("end"); }

/* ---------------------------------------------------------------- thread spawn */
static wasmModuleInstance parent, children[3]; static int nchildren; static int started[3]; static U32 start_tid[3], start_arg[3]; static void* start_inst[3]; static int nstarted;
static struct wasmModuleInstance* my_new_child(struct wasmModuleInstance* self) { V_ASSERT(self == &parent, "newChild is called on the spawning instance"); V_ASSERT(nchildren < 3, "harness: children"); return &children[nchildren++]; }
static void my_thread_start(void* inst, U32 tid, U32 arg) { V_ASSERT(nstarted < 3, "harness: starts"); start_inst[nstarted] = inst; start_tid[nstarted] = tid; start_arg[nstarted] = arg; nstarted++; }
static void my_other(void) { }
static wasmFuncExport exp_with[3] = { { (wasmFunc)my_other, "memory_grow" }, { (wasmFunc)my_thread_start, "wasi_thread_start" }, { 0, 0 } };
static wasmFuncExport exp_without[2] = { { (wasmFunc)my_other, "wasi_thread_star" }, { 0, 0 } };
void harness_spawn(void) { U32 a0 = nd32(), a1 = nd32(); I32 t0, t1; int k, order = nd8() & 1;
    parent.funcExports = exp_with; parent.newChild = my_new_child;
    t0 = (I32)wasi__threadX2Dspawn(&parent, a0); t1 = (I32)wasi__threadX2Dspawn(&parent, a1);
    if (t0 > 0 && t1 > 0) { V_ASSERT(t0 != t1, "thread identifiers are distinct"); V_ASSERT(npend == 2 && nchildren == 2, "one host thread and one child instance per spawn");
        V_ASSERT(nstarted == 0, "start function runs in the new thread, not in the spawning call");
        /* the two threads run in either order */
        if (order) { pend_fn[1](pend_arg[1]); pend_fn[0](pend_arg[0]); } else { pend_fn[0](pend_arg[0]); pend_fn[1](pend_arg[1]); }
        V_ASSERT(nstarted == 2, "wasi_thread_start runs exactly once per spawn");
        for (k = 0; k < 2; k++) { int me = order ? 1 - k : k;
            V_ASSERT(start_inst[k] == (void*)&children[me], "start function receives the child instance created for this spawn");
            V_ASSERT(start_tid[k] == (U32)(me == 0 ? t0 : t1), "start function receives the identifier returned to the spawner");
            V_ASSERT(start_arg[k] == (me == 0 ? a0 : a1), "start function receives the start argument"); }
        V_WITNESS("both spawned"); }
    else { V_ASSERT(t0 > 0 || t0 < 0, "identifier is positive, failure negative"); }
    V_WITNESS("end"); }
void harness_spawn_missing(void) { I32 t; parent.funcExports = exp_without; parent.newChild = my_new_child;
    t = (I32)wasi__threadX2Dspawn(&parent, nd32());
    V_ASSERT(t < 0 && npend == 0 && nchildren == 0, "missing wasi_thread_start export: negative result, nothing created"); V_WITNESS("end"); }
