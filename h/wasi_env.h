/* wasi_env.h - E4 environment: the real wasi/wasi.c is #included after this prelude.  POSIX is replaced by
 * nondeterministic stubs that (i) record their arguments, (ii) dereference every byte range their contract
 * lets them touch, (iii) return any value their contract allows.  PATH_MAX is re-defined small AFTER the
 * system headers (include-guarded), so wasi.c's buffer arithmetic is kept and only the constant shrinks. */
#ifndef WASI_ENV_H
#define WASI_ENV_H
#define _DEFAULT_SOURCE 1
#define _GNU_SOURCE 1
#include <stdarg.h>
#include <stdio.h>
#include <stdlib.h>
#include <string.h>
#include <unistd.h>
#include <time.h>
#include <fcntl.h>
#include <errno.h>
#include <limits.h>
#include <sys/time.h>
#include <sys/resource.h>
#include <sys/uio.h>
#include <sys/stat.h>
#include <sys/types.h>
#include <dirent.h>
#include <pthread.h>
#include "vh.h"

#ifndef VH_PATH_MAX
#define VH_PATH_MAX 16
#endif
#undef PATH_MAX
#define PATH_MAX VH_PATH_MAX

/* ------------------------------------------------------------------ call log */
enum { F_NONE, F_OPEN, F_CLOSE, F_READV, F_WRITEV, F_LSEEK, F_FSTAT, F_STAT, F_LSTAT, F_OPENDIR, F_READDIR, F_CLOSEDIR,
       F_SEEKDIR, F_TELLDIR, F_MKDIR, F_RMDIR, F_UNLINK, F_RENAME, F_SYMLINK, F_READLINK, F_CLOCK_GETTIME, F_CLOCK_GETRES,
       F_GETENTROPY, F_EXIT, F_FCNTL, F_ISATTY, F_FSYNC, F_FDATASYNC, F_READ, F_PTHREAD_CREATE };
#define LOGN 10
typedef struct { int fn; long long a[3]; } LogEnt;
static LogEnt LOG[LOGN]; static int nlog;
static void logc(int fn, long long a0, long long a1, long long a2) {
    V_ASSERT(nlog < LOGN, "harness: call log large enough"); if (nlog < LOGN) { LOG[nlog].fn = fn; LOG[nlog].a[0] = a0; LOG[nlog].a[1] = a1; LOG[nlog].a[2] = a2; nlog++; } }
static int count_fn(int fn) { int k, n = 0; for (k = 0; k < LOGN; k++) if (k < nlog && LOG[k].fn == fn) n++; return n; }

/* paths handed to the host (copied, so that NUL termination inside the caller's buffer is exercised) */
#define PCAP (2 * VH_PATH_MAX + 8)
static char cap_path[2][PCAP]; static int cap_len[2];
static void capture(int slot, const char* p) { int k; cap_len[slot] = -1;
    for (k = 0; k < PCAP; k++) { char c = p[k]; cap_path[slot][k] = c; if (c == 0) { cap_len[slot] = k; break; } }
    V_ASSERT(cap_len[slot] >= 0, "path handed to the host is NUL-terminated within bounds"); }

/* errno values a failing host call may report */
static int any_errno(void) { uint8_t k = nd8();
    static const int tab[16] = { EPERM, ENOENT, EIO, EBADF, EACCES, EEXIST, ENOTDIR, EISDIR, EINVAL, ENOSPC, ESPIPE, EFBIG, ENOMEM, EROFS, EXDEV, EINTR };
    return tab[k & 15]; }

/* ------------------------------------------------------------------ native file model (fds 3..7) */
#define NFD 8
static int nf_open[NFD]; static long long nf_pos[NFD]; static long long nf_size[NFD]; static int stale_use;
static int next_native_fd = 3;
static void use_fd(int fd) { if (fd < 0 || fd >= NFD || (fd > 2 && !nf_open[fd])) stale_use = 1; }

static int vh_open(const char* path, int flags, ...) { int fd;
    capture(0, path); logc(F_OPEN, flags, 0, 0);
    if (nd8() & 1) { errno = any_errno(); return -1; }
    fd = next_native_fd; if (fd >= NFD) { errno = EMFILE; return -1; } next_native_fd++;
    nf_open[fd] = 1; nf_pos[fd] = 0; nf_size[fd] = (long long)(nd32() & 0xFFFF); return fd; }
static int vh_close(int fd) { logc(F_CLOSE, fd, 0, 0); use_fd(fd);
    if (nd8() & 1) { errno = any_errno(); return -1; }
    if (fd >= 0 && fd < NFD) nf_open[fd] = 0; return 0; }
static off_t vh_lseek(int fd, off_t off, int whence) { long long np;
    logc(F_LSEEK, fd, (long long)off, whence); use_fd(fd);
    if (nd8() & 1) { errno = any_errno(); return (off_t)-1; }
    if (fd < 0 || fd >= NFD) { errno = EBADF; return (off_t)-1; }
    if (whence == SEEK_SET) np = (long long)off; else if (whence == SEEK_CUR) np = (long long)((unsigned long long)nf_pos[fd] + (unsigned long long)off); else if (whence == SEEK_END) np = (long long)((unsigned long long)nf_size[fd] + (unsigned long long)off);
    else { errno = EINVAL; return (off_t)-1; }
    if (np < 0) { errno = EINVAL; return (off_t)-1; }
    nf_pos[fd] = np; return (off_t)np; }
/* scatter/gather: records the vector, touches every byte of every segment, returns a short count or an error */
#define IOVMAX 3
static struct iovec seen_iov[IOVMAX]; static int seen_iovcnt; static int seen_iov_fd; static long long io_pos_at_transfer;
static ssize_t vh_rw(int fn, int fd, const struct iovec* iov, int cnt) { int k; long long total = 0, ret;
    logc(fn, fd, cnt, 0); use_fd(fd); seen_iovcnt = cnt; seen_iov_fd = fd;
    io_pos_at_transfer = (fd >= 0 && fd < NFD) ? nf_pos[fd] : -1;
    for (k = 0; k < IOVMAX; k++) if (k < cnt) { seen_iov[k] = iov[k];
        if (iov[k].iov_len > 0) { volatile unsigned char* b = (unsigned char*)iov[k].iov_base;
            if (fn == F_READV) { b[0] = nd8(); b[iov[k].iov_len - 1] = nd8(); } else { unsigned char t = b[0]; t ^= b[iov[k].iov_len - 1]; (void)t; } }
        total += (long long)iov[k].iov_len; }
    if (nd8() & 1) { errno = any_errno(); return -1; }
    ret = (long long)(nd32()); if (ret > total) ret = total; if (ret < 0) ret = 0;
    if (fd >= 0 && fd < NFD) { if (nf_pos[fd] > 0x7FFFFFFFFFFFFFFFll - ret) { errno = EFBIG; return -1; } nf_pos[fd] += ret; }
    return (ssize_t)ret; }
static ssize_t vh_readv(int fd, const struct iovec* iov, int cnt) { return vh_rw(F_READV, fd, iov, cnt); }
static ssize_t vh_writev(int fd, const struct iovec* iov, int cnt) { return vh_rw(F_WRITEV, fd, iov, cnt); }
static ssize_t vh_read(int fd, void* buf, size_t n) { logc(F_READ, fd, (long long)n, 0); use_fd(fd);
    if (n > 0) { ((volatile unsigned char*)buf)[0] = nd8(); ((volatile unsigned char*)buf)[n - 1] = nd8(); }
    if (nd8() & 1) { errno = any_errno(); return -1; } return (ssize_t)n; }

static long nd_nsec(void) { uint32_t v = nd32() & 0x3FFFFFFFu; V_ASSUME(v < 1000000000u); return (long)v; }
static struct stat given_stat;
static void fill_stat(struct stat* st) { memset(st, 0, sizeof *st);
    st->st_dev = nd64(); st->st_ino = nd64(); st->st_mode = nd32(); st->st_nlink = nd64(); st->st_size = (off_t)nd64();
    /* distinct concrete time stamps: field placement and unit conversion are decided here; the seconds*10^9+ns
       arithmetic on symbolic values is decided in the clock harness (one multiplier instead of six) */
    st->st_atim.tv_sec = 1700000001; st->st_atim.tv_nsec = 999999999;
    st->st_mtim.tv_sec = 3; st->st_mtim.tv_nsec = 4;
    st->st_ctim.tv_sec = 2147483647; st->st_ctim.tv_nsec = 6;
    given_stat = *st; }
static int vh_fstat(int fd, struct stat* st) { logc(F_FSTAT, fd, 0, 0); use_fd(fd); if (nd8() & 1) { errno = any_errno(); return -1; } fill_stat(st); return 0; }
static int vh_stat(const char* p, struct stat* st) { capture(0, p); logc(F_STAT, 0, 0, 0); if (nd8() & 1) { errno = any_errno(); return -1; } fill_stat(st); return 0; }
static int vh_lstat(const char* p, struct stat* st) { capture(0, p); logc(F_LSTAT, 0, 0, 0); if (nd8() & 1) { errno = any_errno(); return -1; } fill_stat(st); return 0; }

/* ------------------------------------------------------------------ directory model */
struct __dirstream { int open; int pos; };
#define DENT 3
static struct __dirstream the_dir[2]; static int dirs_used; static int dir_n; static struct dirent dir_ent[DENT]; static struct dirent cur_ent;
static int readdir_fail_at = -1; static int dir_stale_use;
static DIR* vh_opendir(const char* p) { capture(0, p); logc(F_OPENDIR, 0, 0, 0);
    if ((nd8() & 1) || dirs_used >= 2) { errno = any_errno(); return (DIR*)0; }
    the_dir[dirs_used].open = 1; the_dir[dirs_used].pos = 0; return &the_dir[dirs_used++]; }
static struct dirent* vh_readdir(DIR* d) { logc(F_READDIR, d->pos, 0, 0); if (!d->open) dir_stale_use = 1;
    if (d->pos >= dir_n) return (struct dirent*)0;
    cur_ent = dir_ent[d->pos]; d->pos++; return &cur_ent; }
static int vh_closedir(DIR* d) { logc(F_CLOSEDIR, 0, 0, 0); if (!d->open) dir_stale_use = 1; if (nd8() & 1) { errno = any_errno(); return -1; } d->open = 0; return 0; }
static void vh_seekdir(DIR* d, long loc) { logc(F_SEEKDIR, loc, 0, 0); if (!d->open) dir_stale_use = 1; if (loc >= 0 && loc <= dir_n) d->pos = (int)loc; }
static void vh_rewinddir(DIR* d) { logc(F_SEEKDIR, 0, 1, 0); if (!d->open) dir_stale_use = 1; d->pos = 0; }
static long vh_telldir(DIR* d) { if (!d->open) dir_stale_use = 1; return (long)d->pos; }

/* ------------------------------------------------------------------ simple path operations */
static int path_op(int fn, const char* a, const char* b, long long x) { capture(0, a); if (b) capture(1, b); logc(fn, x, 0, 0);
    if (nd8() & 1) { errno = any_errno(); return -1; } return 0; }
static int vh_mkdir(const char* p, mode_t m) { return path_op(F_MKDIR, p, 0, (long long)m); }
static int vh_rmdir(const char* p) { return path_op(F_RMDIR, p, 0, 0); }
static int vh_unlink(const char* p) { return path_op(F_UNLINK, p, 0, 0); }
static int vh_rename(const char* a, const char* b) { return path_op(F_RENAME, a, b, 0); }
static int vh_symlink(const char* a, const char* b) { return path_op(F_SYMLINK, a, b, 0); }
static ssize_t vh_readlink(const char* p, char* buf, size_t n) { size_t r; capture(0, p); logc(F_READLINK, (long long)n, 0, 0);
    if (n > 0) { ((volatile char*)buf)[0] = (char)nd8(); ((volatile char*)buf)[n - 1] = (char)nd8(); }
    if (nd8() & 1) { errno = any_errno(); return -1; } r = nd8(); if (r > n) r = n; return (ssize_t)r; }

/* ------------------------------------------------------------------ process services */
#ifndef CLK_SEC_MASK
#define CLK_SEC_MASK 0xFFFFF
#endif
static struct timespec clk_last[2]; static int clk_calls; static struct timespec clk_given;
static int vh_clock_gettime(clockid_t id, struct timespec* ts) { logc(F_CLOCK_GETTIME, (long long)id, 0, 0);
    if (nd8() & 1) { errno = any_errno(); return -1; }
    ts->tv_sec = (time_t)(nd32() & CLK_SEC_MASK); ts->tv_nsec = nd_nsec();
    if (id == CLOCK_MONOTONIC && clk_calls > 0) { /* contract: non-decreasing */
        V_ASSUME(ts->tv_sec > clk_last[0].tv_sec || (ts->tv_sec == clk_last[0].tv_sec && ts->tv_nsec >= clk_last[0].tv_nsec)); }
    if (id == CLOCK_MONOTONIC) { clk_last[0] = *ts; clk_calls++; }
    clk_given = *ts; return 0; }
static int vh_clock_getres(clockid_t id, struct timespec* ts) { logc(F_CLOCK_GETRES, (long long)id, 0, 0);
    if (nd8() & 1) { errno = any_errno(); return -1; } ts->tv_sec = 0; ts->tv_nsec = nd_nsec(); clk_given = *ts; return 0; }
static unsigned char* ent_lo; static unsigned char* ent_hi; static int ent_calls;
static int vh_getentropy(void* buf, size_t n) { size_t k; logc(F_GETENTROPY, (long long)n, 0, 0); ent_calls++;
    if (n > 256) { errno = EIO; return -1; }     /* documented contract of getentropy(3) */
    if (n > 0) { ((volatile unsigned char*)buf)[0] = nd8(); ((volatile unsigned char*)buf)[n - 1] = nd8(); }
    if (ent_lo == 0 || (unsigned char*)buf < ent_lo) ent_lo = (unsigned char*)buf;
    if (ent_hi == 0 || (unsigned char*)buf + n > ent_hi) ent_hi = (unsigned char*)buf + n;
    (void)k; return 0; }
static int exit_called; static int exit_status;
static void vh_exit(int st) { exit_called++; exit_status = st; logc(F_EXIT, st, 0, 0); V_WITNESS("exit reached"); V_STOP();
#ifndef REPLAY
    while (1) { }
#endif
}
static int vh_fcntl(int fd, int cmd, ...) { logc(F_FCNTL, fd, cmd, 0); use_fd(fd); if (nd8() & 1) { errno = any_errno(); return -1; } return (int)(nd32() & 0xFFFFF); }
static int vh_isatty(int fd) { logc(F_ISATTY, fd, 0, 0); use_fd(fd); return nd8() & 1; }
static int vh_fsync(int fd) { logc(F_FSYNC, fd, 0, 0); use_fd(fd); if (nd8() & 1) { errno = any_errno(); return -1; } return 0; }
static int vh_fdatasync(int fd) { logc(F_FDATASYNC, fd, 0, 0); use_fd(fd); if (nd8() & 1) { errno = any_errno(); return -1; } return 0; }
/* thread creation: the start routine runs at a later point chosen by the harness */
typedef void* (*thr_fn)(void*);
static thr_fn pend_fn[3]; static void* pend_arg[3]; static int npend;
static int vh_pthread_create(pthread_t* t, const pthread_attr_t* a, thr_fn f, void* arg) { (void)t; (void)a; logc(F_PTHREAD_CREATE, 0, 0, 0);
    if (nd8() & 1) return EAGAIN;
    V_ASSERT(npend < 3, "harness: pending thread table large enough"); pend_fn[npend] = f; pend_arg[npend] = arg; npend++; return 0; }

static char* vh_strndup(const char* s, size_t n) { size_t k, l = 0; char* d; for (k = 0; k < PCAP; k++) { if (k >= n || s[k] == 0) break; l++; }
    d = (char*)malloc(l + 1); if (!d) return 0; for (k = 0; k < PCAP; k++) { if (k >= l) break; d[k] = s[k]; } d[l] = 0; return d; }
#define strndup vh_strndup
#define open vh_open
#define close vh_close
#define lseek vh_lseek
#define readv vh_readv
#define writev vh_writev
#define read vh_read
#define fstat vh_fstat
#define stat(p, s) vh_stat(p, s)
#define lstat vh_lstat
#define opendir vh_opendir
#define readdir vh_readdir
#define closedir vh_closedir
#define seekdir vh_seekdir
#define telldir vh_telldir
#define rewinddir vh_rewinddir
#define mkdir vh_mkdir
#define rmdir vh_rmdir
#define unlink vh_unlink
#define rename vh_rename
#define symlink vh_symlink
#define readlink vh_readlink
#define clock_gettime vh_clock_gettime
#define clock_getres vh_clock_getres
#define getentropy vh_getentropy
#define exit vh_exit
#define fcntl vh_fcntl
#define isatty vh_isatty
#define fsync vh_fsync
#define fdatasync vh_fdatasync
#define pthread_create vh_pthread_create
#define srandom(x) ((void)(x))
#define random() ((long)nd32())
#define time(x) ((time_t)nd32())

/* the real implementation */
#include "wasi.c"

/* ------------------------------------------------------------------ guest memory */
#ifndef GMEM
#define GMEM 128
#endif
static U8 gdata[GMEM]; static wasmMemory gmem;
wasmMemory* wasiMemory(void* instance) { (void)instance; return &gmem; }
static void guest_init(void) { int k; for (k = 0; k < GMEM; k++) gdata[k] = nd8(); gmem.data = gdata; gmem.size = GMEM; gmem.pages = 1; gmem.maxPages = 1; }
static U32 gptr(U32 size) { U32 p = nd8(); V_ASSUME((U64)p + size <= GMEM); return p; }
static U64 gle(U32 p, int n) { U64 v = 0; int k; for (k = 0; k < 8; k++) if (k < n) v |= ((U64)gdata[p + k]) << (8 * k); return v; }
static void gput(U32 p, int n, U64 v) { int k; for (k = 0; k < 8; k++) if (k < n) gdata[p + k] = (U8)(v >> (8 * k)); }

/* WASI errno numbers from the specification (witx), independent of wasi.h's macro names */
static int spec_errno(int e) {
    switch (e) { case E2BIG: return 1; case EACCES: return 2; case EAGAIN: return 6; case EBADF: return 8; case EBUSY: return 10; case ECHILD: return 12;
    case EDOM: return 18; case EEXIST: return 20; case EFAULT: return 21; case EFBIG: return 22; case EINTR: return 27; case EINVAL: return 28; case EIO: return 29;
    case EISDIR: return 31; case ELOOP: return 32; case EMFILE: return 33; case EMLINK: return 34; case ENAMETOOLONG: return 37; case ENFILE: return 41;
    case ENODEV: return 43; case ENOENT: return 44; case ENOEXEC: return 45; case ENOMEM: return 48; case ENOSPC: return 51; case ENOTDIR: return 54;
    case ENOTTY: return 59; case ENXIO: return 60; case EPERM: return 63; case EPIPE: return 64; case ERANGE: return 68; case EROFS: return 69; case ESPIPE: return 70;
    case ESRCH: return 71; case ETXTBSY: return 74; case EXDEV: return 75;
    case ENOTEMPTY: return 55; case ENOSYS: return 52; case EOVERFLOW: return 61; default: return -1; } }
/* every host errno that has a WASI counterpart and that file-system calls commonly report */
static const int fs_errnos[] = { E2BIG, EACCES, EAGAIN, EBADF, EBUSY, ECHILD, EDOM, EEXIST, EFAULT, EFBIG, EINTR, EINVAL, EIO, EISDIR, ELOOP, EMFILE, EMLINK, ENAMETOOLONG, ENFILE, ENODEV, ENOENT,
    ENOEXEC, ENOMEM, ENOSPC, ENOTDIR, ENOTTY, ENXIO, EPERM, EPIPE, ERANGE, EROFS, ESPIPE, ESRCH, ETXTBSY, EXDEV, ENOTEMPTY, ENOSYS, EOVERFLOW };
#define N_FS_ERRNOS ((int)(sizeof fs_errnos / sizeof fs_errnos[0]))

static char* empty_envp[1] = { 0 };
static void table_init(void) { bool ok = wasiInit(0, empty_envp, empty_envp); V_ASSUME(ok); }
#endif
