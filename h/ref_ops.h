/* ref_ops.h - reference semantics of WebAssembly numeric instructions, written from the
 * specification (numerics chapter), independent of w2c2_base.h.  Integers are uint32_t /
 * uint64_t, floats travel as BIT PATTERNS (uint32_t / uint64_t).  Bit-level definitions are
 * used for everything the spec defines structurally (comparisons, min/max, rounding to
 * integral, abs/neg/copysign, float->int truncation); +,-,*,/,sqrt, int->float and
 * promote/demote use the C operator on the decoded value (round-to-nearest-even), which is
 * what decides opcode->operator mapping, operand order and operand width, not IEEE
 * conformance of a C implementation (stated in DESIGN.md).
 *
 * Trapping operations set R_trap (0 = none) and return 0.
 */
#ifndef REF_OPS_H
#define REF_OPS_H
#include <stdint.h>
#include <string.h>
#include <math.h>

#define R_TRAP_NONE 0
#define R_TRAP_UNREACHABLE 1
#define R_TRAP_DIV0 2
#define R_TRAP_OVERFLOW 3
#define R_TRAP_INVALID 4

static int R_trap;

typedef uint32_t r32;
typedef uint64_t r64;

/* ------------------------------------------------------------------ integers */
#define R_INT_OPS(N, T, ST, MINV)                                                        \
static T r_i##N##_add(T a, T b) { return (T)(a + b); }                                   \
static T r_i##N##_sub(T a, T b) { return (T)(a - b); }                                   \
static T r_i##N##_mul(T a, T b) { return (T)(a * b); }                                   \
static T r_i##N##_and(T a, T b) { return a & b; }                                        \
static T r_i##N##_or(T a, T b) { return a | b; }                                         \
static T r_i##N##_xor(T a, T b) { return a ^ b; }                                        \
static T r_i##N##_shl(T a, T b) { unsigned k = (unsigned)(b % N); return (T)(a << k); }  \
static T r_i##N##_shr_u(T a, T b) { unsigned k = (unsigned)(b % N); return (T)(a >> k); }\
static T r_i##N##_shr_s(T a, T b) {                                                      \
    unsigned k = (unsigned)(b % N);                                                      \
    T r = (T)(a >> k);                                                                   \
    if ((a >> (N - 1)) & 1) { if (k != 0) r |= (T)(~(T)0 << (N - k)); }                  \
    return r; }                                                                          \
static T r_i##N##_rotl(T a, T b) { unsigned k = (unsigned)(b % N);                       \
    return k == 0 ? a : (T)((a << k) | (a >> (N - k))); }                                \
static T r_i##N##_rotr(T a, T b) { unsigned k = (unsigned)(b % N);                       \
    return k == 0 ? a : (T)((a >> k) | (a << (N - k))); }                                \
static T r_i##N##_clz(T a) { unsigned i, n = 0, done = 0;                                \
    for (i = 0; i < N; i++) { if (!done) { if ((a >> (N - 1 - i)) & 1) done = 1; else n++; } } \
    return (T)n; }                                                                       \
static T r_i##N##_ctz(T a) { unsigned i, n = 0, done = 0;                                \
    for (i = 0; i < N; i++) { if (!done) { if ((a >> i) & 1) done = 1; else n++; } }     \
    return (T)n; }                                                                       \
static T r_i##N##_popcnt(T a) { unsigned i, n = 0;                                       \
    for (i = 0; i < N; i++) n += (unsigned)((a >> i) & 1);                               \
    return (T)n; }                                                                       \
static int r_i##N##_neg_p(T a) { return (int)((a >> (N - 1)) & 1); }                     \
static r32 r_i##N##_eqz(T a) { return a == 0; }                                          \
static r32 r_i##N##_eq(T a, T b) { return a == b; }                                      \
static r32 r_i##N##_ne(T a, T b) { return a != b; }                                      \
static r32 r_i##N##_lt_u(T a, T b) { return a < b; }                                     \
static r32 r_i##N##_gt_u(T a, T b) { return a > b; }                                     \
static r32 r_i##N##_le_u(T a, T b) { return a <= b; }                                    \
static r32 r_i##N##_ge_u(T a, T b) { return a >= b; }                                    \
/* signed order: flip the sign bit and compare unsigned */                               \
static r32 r_i##N##_lt_s(T a, T b) { return (T)(a ^ MINV) < (T)(b ^ MINV); }             \
static r32 r_i##N##_gt_s(T a, T b) { return (T)(a ^ MINV) > (T)(b ^ MINV); }             \
static r32 r_i##N##_le_s(T a, T b) { return (T)(a ^ MINV) <= (T)(b ^ MINV); }            \
static r32 r_i##N##_ge_s(T a, T b) { return (T)(a ^ MINV) >= (T)(b ^ MINV); }            \
static T r_i##N##_div_u(T a, T b) { if (b == 0) { R_trap = R_TRAP_DIV0; return 0; }      \
    return (T)(a / b); }                                                                 \
static T r_i##N##_rem_u(T a, T b) { if (b == 0) { R_trap = R_TRAP_DIV0; return 0; }      \
    return (T)(a % b); }                                                                 \
static T r_i##N##_div_s(T a, T b) { if (b == 0) { R_trap = R_TRAP_DIV0; return 0; }      \
    if (a == MINV && b == (T)~(T)0) { R_trap = R_TRAP_OVERFLOW; return 0; }              \
    return (T)((ST)a / (ST)b); }                                                         \
static T r_i##N##_rem_s(T a, T b) { if (b == 0) { R_trap = R_TRAP_DIV0; return 0; }      \
    if (a == MINV && b == (T)~(T)0) { return 0; }                                        \
    return (T)((ST)a % (ST)b); }

R_INT_OPS(32, uint32_t, int32_t, 0x80000000u)
R_INT_OPS(64, uint64_t, int64_t, 0x8000000000000000ull)

static r32 r_i32_wrap_i64(r64 a) { return (r32)(a & 0xFFFFFFFFu); }
static r64 r_i64_extend_i32_u(r32 a) { return (r64)a; }
static r64 r_i64_extend_i32_s(r32 a) { return (a & 0x80000000u) ? ((r64)a | 0xFFFFFFFF00000000ull) : (r64)a; }
static r32 r_i32_extend8_s(r32 a) { a &= 0xFFu; return (a & 0x80u) ? (a | 0xFFFFFF00u) : a; }
static r32 r_i32_extend16_s(r32 a) { a &= 0xFFFFu; return (a & 0x8000u) ? (a | 0xFFFF0000u) : a; }
static r64 r_i64_extend8_s(r64 a) { a &= 0xFFu; return (a & 0x80u) ? (a | 0xFFFFFFFFFFFFFF00ull) : a; }
static r64 r_i64_extend16_s(r64 a) { a &= 0xFFFFu; return (a & 0x8000u) ? (a | 0xFFFFFFFFFFFF0000ull) : a; }
static r64 r_i64_extend32_s(r64 a) { a &= 0xFFFFFFFFu; return (a & 0x80000000u) ? (a | 0xFFFFFFFF00000000ull) : a; }

/* ------------------------------------------------------------------ float <-> bits */
static float r_f32_of(r32 b) { float f; memcpy(&f, &b, 4); return f; }
static r32 r_bits_f32(float f) { r32 b; memcpy(&b, &f, 4); return b; }
static double r_f64_of(r64 b) { double f; memcpy(&f, &b, 8); return f; }
static r64 r_bits_f64(double f) { r64 b; memcpy(&b, &f, 8); return b; }

/* generic IEEE binary format helpers; M = mantissa bits, E = exponent bits, x in low 1+E+M bits */
typedef struct { int M, E; } r_fmt;
static const r_fmt R_F32 = {23, 8};
static const r_fmt R_F64 = {52, 11};

#define R_SIGN(f) ((r64)1 << ((f).M + (f).E))
#define R_MMASK(f) (((r64)1 << (f).M) - 1)
#define R_EMAX(f) ((((r64)1) << (f).E) - 1)
#define R_EXP(f, x) (((x) >> (f).M) & R_EMAX(f))
#define R_BIAS(f) ((int)((((r64)1) << ((f).E - 1)) - 1))

static int r_isnan(r_fmt f, r64 x) { return R_EXP(f, x) == R_EMAX(f) && (x & R_MMASK(f)) != 0; }
static int r_isinf(r_fmt f, r64 x) { return R_EXP(f, x) == R_EMAX(f) && (x & R_MMASK(f)) == 0; }
static int r_iszero(r_fmt f, r64 x) { return (x & ~R_SIGN(f)) == 0; }
static r64 r_qnan(r_fmt f) { return (R_EMAX(f) << f.M) | ((r64)1 << (f.M - 1)); }
/* total-order key for non-NaN values: -0 and +0 both map to 0 */
static int64_t r_key(r_fmt f, r64 x) {
    int64_t mag = (int64_t)(x & ~R_SIGN(f));
    return (x & R_SIGN(f)) ? -mag : mag;
}
static r32 r_feq(r_fmt f, r64 a, r64 b) { return !r_isnan(f, a) && !r_isnan(f, b) && r_key(f, a) == r_key(f, b); }
static r32 r_fne(r_fmt f, r64 a, r64 b) { return !r_feq(f, a, b); }
static r32 r_flt(r_fmt f, r64 a, r64 b) { return !r_isnan(f, a) && !r_isnan(f, b) && r_key(f, a) < r_key(f, b); }
static r32 r_fgt(r_fmt f, r64 a, r64 b) { return r_flt(f, b, a); }
static r32 r_fle(r_fmt f, r64 a, r64 b) { return !r_isnan(f, a) && !r_isnan(f, b) && r_key(f, a) <= r_key(f, b); }
static r32 r_fge(r_fmt f, r64 a, r64 b) { return r_fle(f, b, a); }
static r64 r_fabs(r_fmt f, r64 a) { return a & ~R_SIGN(f); }
static r64 r_fneg(r_fmt f, r64 a) { return a ^ R_SIGN(f); }
static r64 r_fcopysign(r_fmt f, r64 a, r64 b) { return (a & ~R_SIGN(f)) | (b & R_SIGN(f)); }
static r64 r_fmin(r_fmt f, r64 a, r64 b) {
    if (r_isnan(f, a) || r_isnan(f, b)) return r_qnan(f);
    if (r_key(f, a) < r_key(f, b)) return a;
    if (r_key(f, b) < r_key(f, a)) return b;
    return a | b; /* equal: differs only for +-0, where min has the sign if either has */
}
static r64 r_fmax(r_fmt f, r64 a, r64 b) {
    if (r_isnan(f, a) || r_isnan(f, b)) return r_qnan(f);
    if (r_key(f, a) > r_key(f, b)) return a;
    if (r_key(f, b) > r_key(f, a)) return b;
    return a & b;
}
/* rounding to integral: mode 0 trunc, 1 floor, 2 ceil, 3 nearest-even */
static r64 r_fround(r_fmt f, r64 x, int mode) {
    r64 sign = x & R_SIGN(f);
    int e = (int)R_EXP(f, x) - R_BIAS(f);
    r64 one = ((r64)R_BIAS(f)) << f.M; /* +1.0 */
    if (r_isnan(f, x)) return r_qnan(f);
    if (R_EXP(f, x) == R_EMAX(f)) return x;      /* inf */
    if (r_iszero(f, x)) return x;
    if (e >= f.M) return x;                      /* already integral */
    if (e < 0) {                                 /* 0 < |x| < 1 */
        int up;
        if (mode == 0) up = 0;
        else if (mode == 1) up = sign != 0;
        else if (mode == 2) up = sign == 0;
        else { /* nearest: > 0.5 rounds to 1, == 0.5 ties to 0 */
            up = (e == -1) && ((x & R_MMASK(f)) != 0);
        }
        return up ? (sign | one) : sign;
    }
    {
        r64 unit = (r64)1 << (f.M - e);          /* weight of integer 1 in the encoding */
        r64 mask = unit - 1;
        r64 frac = x & mask;
        r64 t = x & ~mask;
        int up;
        if (frac == 0) return x;
        if (mode == 0) up = 0;
        else if (mode == 1) up = sign != 0;
        else if (mode == 2) up = sign == 0;
        else {
            r64 half = unit >> 1;
            if (frac > half) up = 1;
            else if (frac < half) up = 0;
            else up = (t & unit) != 0;           /* tie: to even */
        }
        return up ? t + unit : t;                /* magnitude +1; carries into the exponent */
    }
}
/* float -> integer truncation.  N = 32/64, sgn = signed target; sat = saturating.
 * returns value in low N bits; sets R_trap for the trapping forms. */
static r64 r_ftrunc_int(r_fmt f, r64 x, int N, int sgn, int sat) {
    int neg = (x & R_SIGN(f)) != 0;
    int e = (int)R_EXP(f, x) - R_BIAS(f);
    r64 mant = (x & R_MMASK(f)) | ((r64)1 << f.M);
    r64 mag;
    r64 maxpos = sgn ? (((r64)1 << (N - 1)) - 1) : (N == 64 ? ~(r64)0 : (((r64)1 << N) - 1));
    r64 minneg = sgn ? ((r64)1 << (N - 1)) : 0;     /* magnitude of most negative */
    int over;
    if (r_isnan(f, x)) { if (sat) return 0; R_trap = R_TRAP_INVALID; return 0; }
    if (R_EXP(f, x) == 0) e = -1000;                /* zero / subnormal: |x| < 1 */
    if (e < 0) return 0;
    if (R_EXP(f, x) == R_EMAX(f) || e >= 64) { over = 1; mag = 0; }
    else {
        mag = (e <= f.M) ? (mant >> (f.M - e)) : (mant << (e - f.M));
        over = neg ? (mag > minneg) : (mag > maxpos);
    }
    if (over) {
        if (!sat) { R_trap = R_TRAP_OVERFLOW; return 0; }
        if (neg) return sgn ? (N == 64 ? ((r64)1 << 63) : (r64)0x80000000u) : 0;
        return maxpos;
    }
    if (neg) { mag = (r64)0 - mag; if (N == 32) mag &= 0xFFFFFFFFu; }
    return mag;
}

/* ------------------------------------------------------------------ f32 / f64 op wrappers */
#define R_FLOAT_OPS(N, T, FMT, CT, OF, BITS, SQRT)                                             \
static r32 r_f##N##_eq(T a, T b) { return r_feq(FMT, a, b); }                                  \
static r32 r_f##N##_ne(T a, T b) { return r_fne(FMT, a, b); }                                  \
static r32 r_f##N##_lt(T a, T b) { return r_flt(FMT, a, b); }                                  \
static r32 r_f##N##_gt(T a, T b) { return r_fgt(FMT, a, b); }                                  \
static r32 r_f##N##_le(T a, T b) { return r_fle(FMT, a, b); }                                  \
static r32 r_f##N##_ge(T a, T b) { return r_fge(FMT, a, b); }                                  \
static T r_f##N##_abs(T a) { return (T)r_fabs(FMT, a); }                                       \
static T r_f##N##_neg(T a) { return (T)r_fneg(FMT, a); }                                       \
static T r_f##N##_copysign(T a, T b) { return (T)r_fcopysign(FMT, a, b); }                     \
static T r_f##N##_min(T a, T b) { return (T)r_fmin(FMT, a, b); }                               \
static T r_f##N##_max(T a, T b) { return (T)r_fmax(FMT, a, b); }                               \
static T r_f##N##_trunc(T a) { return (T)r_fround(FMT, a, 0); }                                \
static T r_f##N##_floor(T a) { return (T)r_fround(FMT, a, 1); }                                \
static T r_f##N##_ceil(T a) { return (T)r_fround(FMT, a, 2); }                                 \
static T r_f##N##_nearest(T a) { return (T)r_fround(FMT, a, 3); }                              \
static T r_f##N##_add(T a, T b) { CT r = OF(a) + OF(b); return BITS(r); }                      \
static T r_f##N##_sub(T a, T b) { CT r = OF(a) - OF(b); return BITS(r); }                      \
static T r_f##N##_mul(T a, T b) { CT r = OF(a) * OF(b); return BITS(r); }                      \
static T r_f##N##_div(T a, T b) { CT r = OF(a) / OF(b); return BITS(r); }                      \
static T r_f##N##_sqrt(T a) { CT r = SQRT(OF(a)); return BITS(r); }                            \
static T r_f##N##_convert_i32_s(r32 a) { CT r = (CT)(int32_t)a; return BITS(r); }              \
static T r_f##N##_convert_i32_u(r32 a) { CT r = (CT)a; return BITS(r); }                       \
static T r_f##N##_convert_i64_s(r64 a) { CT r = (CT)(int64_t)a; return BITS(r); }              \
static T r_f##N##_convert_i64_u(r64 a) { CT r = (CT)a; return BITS(r); }                       \
static r32 r_i32_trunc_f##N##_s(T a) { return (r32)r_ftrunc_int(FMT, a, 32, 1, 0); }           \
static r32 r_i32_trunc_f##N##_u(T a) { return (r32)r_ftrunc_int(FMT, a, 32, 0, 0); }           \
static r64 r_i64_trunc_f##N##_s(T a) { return r_ftrunc_int(FMT, a, 64, 1, 0); }                \
static r64 r_i64_trunc_f##N##_u(T a) { return r_ftrunc_int(FMT, a, 64, 0, 0); }                \
static r32 r_i32_trunc_sat_f##N##_s(T a) { return (r32)r_ftrunc_int(FMT, a, 32, 1, 1); }       \
static r32 r_i32_trunc_sat_f##N##_u(T a) { return (r32)r_ftrunc_int(FMT, a, 32, 0, 1); }       \
static r64 r_i64_trunc_sat_f##N##_s(T a) { return r_ftrunc_int(FMT, a, 64, 1, 1); }            \
static r64 r_i64_trunc_sat_f##N##_u(T a) { return r_ftrunc_int(FMT, a, 64, 0, 1); }

R_FLOAT_OPS(32, r32, R_F32, float, r_f32_of, r_bits_f32, sqrtf)
R_FLOAT_OPS(64, r64, R_F64, double, r_f64_of, r_bits_f64, sqrt)

static r32 r_f32_demote_f64(r64 a) { float r = (float)r_f64_of(a); return r_bits_f32(r); }
static r64 r_f64_promote_f32(r32 a) { double r = (double)r_f32_of(a); return r_bits_f64(r); }
static r32 r_i32_reinterpret_f32(r32 a) { return a; }
static r64 r_i64_reinterpret_f64(r64 a) { return a; }
static r32 r_f32_reinterpret_i32(r32 a) { return a; }
static r64 r_f64_reinterpret_i64(r64 a) { return a; }

static int r_f32_isnan(r32 a) { return r_isnan(R_F32, a); }
static int r_f64_isnan(r64 a) { return r_isnan(R_F64, a); }

#endif
