/* sprintf_model.h - contract model of sprintf for exactly the conversions w2c2 uses.
 * Hex conversions write the real characters.  Decimal integer and %g conversions write the REAL NUMBER of
 * characters (so an undersized destination buffer is an out-of-bounds write) but placeholder characters,
 * and record the converted value in ghost variables (sp_kind, sp_ival, sp_dval).  For %g the length is an
 * arbitrary value in the range the C standard allows for the precision (max 15 for %.9g, 24 for %.17g). */
#ifndef SPRINTF_MODEL_H
#define SPRINTF_MODEL_H
#include <stdarg.h>
#include <stdio.h>
enum { SP_NONE, SP_U32, SP_I32, SP_U64, SP_I64, SP_HEX, SP_G9, SP_G17 };
static int sp_kind; static unsigned long long sp_ival; static double sp_dval; static int sp_calls;
static int sp_eq(const char* a, const char* b) { int k; for (k = 0; k < 12; k++) { if (a[k] != b[k]) return 0; if (!a[k]) return 1; } return 0; }
static int sp_ndigits(unsigned long long v) {
    int n = 1; unsigned long long p = 10; int k;
    for (k = 0; k < 19; k++) { if (v >= p) n++; if (k < 18) p *= 10; else break; }
    if (v >= 10000000000000000000ull) n = 20;
    return n;
}
static int sp_hex(char* buf, unsigned long long v, int width) {
    int n = width, k; unsigned long long t = v;
    int need = 1; for (k = 1; k < 16; k++) if ((t >> (4 * k)) != 0) need = k + 1;
    if (need > n) n = need;
    for (k = 0; k < 16; k++) if (k < n) { unsigned d = (unsigned)((v >> (4 * (n - 1 - k))) & 15u); buf[k] = (char)(d < 10 ? '0' + d : 'A' + (d - 10)); }
    buf[n] = 0; return n;
}
static int sp_fill(char* buf, int n) { int k; for (k = 0; k < 24; k++) if (k < n) buf[k] = '#'; buf[n] = 0; return n; }
int sprintf(char* buf, const char* fmt, ...) {
    va_list ap; int n = 0;
    va_start(ap, fmt);
    sp_calls++;
    if (sp_eq(fmt, "%u")) { unsigned v = va_arg(ap, unsigned); sp_kind = SP_U32; sp_ival = v; n = sp_fill(buf, sp_ndigits(v)); }
    else if (sp_eq(fmt, "%i")) { int v = va_arg(ap, int); unsigned long long m = v < 0 ? (unsigned long long)(-(long long)v) : (unsigned long long)v;
        sp_kind = SP_I32; sp_ival = (unsigned long long)(long long)v; n = sp_fill(buf, sp_ndigits(m) + (v < 0)); }
    else if (sp_eq(fmt, "%llu")) { unsigned long long v = va_arg(ap, unsigned long long); sp_kind = SP_U64; sp_ival = v; n = sp_fill(buf, sp_ndigits(v)); }
    else if (sp_eq(fmt, "%lli")) { long long v = va_arg(ap, long long); unsigned long long m = v < 0 ? (0ull - (unsigned long long)v) : (unsigned long long)v;
        sp_kind = SP_I64; sp_ival = (unsigned long long)v; n = sp_fill(buf, sp_ndigits(m) + (v < 0)); }
    else if (sp_eq(fmt, "%02X")) { unsigned v = va_arg(ap, unsigned); sp_kind = SP_HEX; sp_ival = v; n = sp_hex(buf, v, 2); }
    else if (sp_eq(fmt, "%08X")) { unsigned v = va_arg(ap, unsigned); sp_kind = SP_HEX; sp_ival = v; n = sp_hex(buf, v, 8); }
    else if (sp_eq(fmt, "%016llX")) { unsigned long long v = va_arg(ap, unsigned long long); sp_kind = SP_HEX; sp_ival = v; n = sp_hex(buf, v, 16); }
    else if (sp_eq(fmt, "%.9g")) {
#ifdef REPLAY
        double v = va_arg(ap, double);
#else
        /* CBMC stores a float vararg unpromoted; w2c2 passes an F32 here */
        double v = (double)va_arg(ap, float);
#endif
        int len = (int)(nd8() % 15) + 1; sp_kind = SP_G9; sp_dval = v; n = sp_fill(buf, len); }
    else if (sp_eq(fmt, "%.17g")) { double v = va_arg(ap, double); int len = (int)(nd8() % 24) + 1; sp_kind = SP_G17; sp_dval = v; n = sp_fill(buf, len); }
    else { V_ASSERT(0, "sprintf model: conversion not modelled"); }
    va_end(ap);
    return n;
}
#endif
