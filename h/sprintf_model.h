/* sprintf_model.h - contract model of sprintf for exactly the conversions w2c2 uses.
 * Hex conversions write the real characters.  Decimal integer and %g conversions write the REAL NUMBER of
 * characters (so an undersized destination buffer is an out-of-bounds write) but placeholder characters,
 * and record the converted value in ghost variables (sp_kind, sp_ival, sp_dval).  For %g the length is an
 * arbitrary value in the range the C standard allows for the precision (max 15 for %.9g, 24 for %.17g). */
#ifndef SPRINTF_MODEL_H
#define SPRINTF_MODEL_H
#include <stdarg.h>
#include <stdio.h>
enum { SP_NONE, SP_U32, SP_I32, SP_U64, SP_I64, SP_HEX, SP_G9, SP_G17 };
static int sp_kind; static unsigned long long sp_ival; static double sp_dval; static int sp_calls;
static int sp_eq(const char* a, const char* b) { int k; for (k = 0; k < 12; k++) { if (a[k] != b[k]) return 0; if (!a[k]) return 1; } return 0; }
static int sp_ndigits(unsigned long long v) {
    int n = 1; unsigned long long p = 10; int k;
    for (k = 0; k < 19; k++) { if (v >= p) n++; if (k < 18) p *= 10; else break; }
    if (v >= 10000000000000000000ull) n = 20;
    return n;
}
static int sp_hex(char* buf, unsigned long long v, int width) {
    int n = width, k; unsigned long long t = v;
    int need = 1; for (k = 1; k < 16; k++) if ((t >> (4 * k)) != 0) need = k + 1;
    if (need > n) n = need;
    for (k = 0; k < 16; k++) if (k < n) { unsigned d = (unsigned)((v >> (4 * (n - 1 - k))) & 15u); buf[k] = (char)(d < 10 ? '0' + d : 'A' + (d - 10)); }
    buf[n] = 0; return n;
}
static int sp_fill(char* buf, int n) { int k; for (k = 0; k < 24; k++) if (k < n) buf[k] = '#'; buf[n] = 0; return n; }
/* All sprintf calls in w2c2 pass exactly one value.  The call is routed by the PROMOTED type of that value
 * ((x)+0 applies the integer promotions, float is widened like a vararg) to a non-variadic model function, so the
 * model sees exactly what a variadic callee would fetch with va_arg. */
static int sp_model(char* buf, const char* fmt, int is_float, unsigned long long iv, long long sv, double dv) {
    int n = 0; sp_calls++;
    if (sp_eq(fmt, "%u")) { unsigned v = (unsigned)iv; sp_kind = SP_U32; sp_ival = v; n = sp_fill(buf, sp_ndigits(v)); }
    else if (sp_eq(fmt, "%i")) { int v = (int)sv; unsigned long long m = v < 0 ? (unsigned long long)(-(long long)v) : (unsigned long long)v;
        sp_kind = SP_I32; sp_ival = (unsigned long long)(long long)v; n = sp_fill(buf, sp_ndigits(m) + (v < 0)); }
    else if (sp_eq(fmt, "%llu")) { unsigned long long v = iv; sp_kind = SP_U64; sp_ival = v; n = sp_fill(buf, sp_ndigits(v)); }
    else if (sp_eq(fmt, "%lli")) { long long v = sv; unsigned long long m = v < 0 ? (0ull - (unsigned long long)v) : (unsigned long long)v;
        sp_kind = SP_I64; sp_ival = (unsigned long long)v; n = sp_fill(buf, sp_ndigits(m) + (v < 0)); }
    else if (sp_eq(fmt, "%02X")) { unsigned v = (unsigned)iv; sp_kind = SP_HEX; sp_ival = v; n = sp_hex(buf, v, 2); }
    else if (sp_eq(fmt, "%08X")) { unsigned v = (unsigned)iv; sp_kind = SP_HEX; sp_ival = v; n = sp_hex(buf, v, 8); }
    else if (sp_eq(fmt, "%016llX")) { unsigned long long v = iv; sp_kind = SP_HEX; sp_ival = v; n = sp_hex(buf, v, 16); }
    else if (sp_eq(fmt, "%.9g")) { int len = (int)(nd8() % 15) + 1; V_ASSERT(is_float, "%.9g is given a floating-point value"); sp_kind = SP_G9; sp_dval = dv; n = sp_fill(buf, len); }
    else if (sp_eq(fmt, "%.17g")) { int len = (int)(nd8() % 24) + 1; V_ASSERT(is_float, "%.17g is given a floating-point value"); sp_kind = SP_G17; sp_dval = dv; n = sp_fill(buf, len); }
    else { V_ASSERT(0, "sprintf model: conversion not modelled"); }
    return n; }
static int sp_i(char* b, const char* f, int v) { return sp_model(b, f, 0, (unsigned long long)(unsigned)v, (long long)v, 0.0); }
static int sp_u(char* b, const char* f, unsigned v) { return sp_model(b, f, 0, (unsigned long long)v, (long long)v, 0.0); }
static int sp_l(char* b, const char* f, long v) { return sp_model(b, f, 0, (unsigned long long)v, (long long)v, 0.0); }
static int sp_ul(char* b, const char* f, unsigned long v) { return sp_model(b, f, 0, (unsigned long long)v, (long long)v, 0.0); }
static int sp_ll(char* b, const char* f, long long v) { return sp_model(b, f, 0, (unsigned long long)v, v, 0.0); }
static int sp_ull(char* b, const char* f, unsigned long long v) { return sp_model(b, f, 0, v, (long long)v, 0.0); }
static int sp_d(char* b, const char* f, double v) { return sp_model(b, f, 1, 0, 0, v); }
/* the one two-value call: sprintf(filename, "%c%010u.c", prefix, index): prefix character, ten placeholder digits, ".c" */
static int sp_name_prefix; static unsigned sp_name_index; static int sp_name_calls;
static int sp_2(char* b, const char* f, int c, unsigned idx) { int k; V_ASSERT(sp_eq(f, "%c%010u.c"), "sprintf model: two-value conversion not modelled");
    sp_calls++; sp_name_calls++; sp_name_prefix = c; sp_name_index = idx; b[0] = (char)c; for (k = 0; k < 10; k++) b[1 + k] = '#'; b[11] = '.'; b[12] = 'c'; b[13] = 0; return 13; }
#undef sprintf
#define SP_1(buf, fmt, x) _Generic((x) + 0, int: sp_i, unsigned int: sp_u, long: sp_l, unsigned long: sp_ul, long long: sp_ll, \
    unsigned long long: sp_ull, float: sp_d, double: sp_d)(buf, fmt, (x) + 0)
#define SP_2(buf, fmt, x, y) sp_2(buf, fmt, (int)(x), (unsigned)(y))
#define SP_PICK(_1, _2, NAME, ...) NAME
#define sprintf(buf, fmt, ...) SP_PICK(__VA_ARGS__, SP_2, SP_1)(buf, fmt, __VA_ARGS__)
#endif
